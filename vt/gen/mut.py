"""Answer mutants: systematic small changes of a reference object (the result is classified
right / wrong by the reference models, never by construction)."""
from vt.ref import fa, cf, pd, tmr, rx


def fa_mutants(R, rng, nfa=False, limit=12, extra_word_len=0):
    Q, S, T, q0, F = R
    out = []
    Q = list(Q)
    T = list(T)
    # flip acceptance of one state
    for q in rng.sample(Q, min(len(Q), 3)):
        out.append(('flip_final', fa.make(Q, S, T, q0, set(F) ^ {q})))
    # retarget one transition
    for _ in range(3):
        if T:
            i = rng.randrange(len(T))
            (p, a, q) = T[i]
            q2 = rng.choice(Q)
            if q2 != q:
                out.append(('retarget', fa.make(Q, S, T[:i] + [(p, a, q2)] + T[i + 1:], q0, F)))
    # change the initial state
    if len(Q) > 1:
        out.append(('other_initial', fa.make(Q, S, T, rng.choice([q for q in Q if q != q0]), F)))
    # add an (unreachable) state with moves to the initial state: same language, more states
    new = 'extra9'
    if new not in Q:
        T2 = T + [(new, a, q0) for a in S]
        out.append(('extra_unreachable_state', fa.make(Q + [new], S, T2, q0, F)))
        out.append(('extra_unreachable_final_state', fa.make(Q + [new], S, T2, q0, list(F) + [new])))
    # all / no states accepting
    out.append(('all_final', fa.make(Q, S, T, q0, Q)))
    out.append(('no_final', fa.make(Q, S, T, q0, [])))
    if nfa:
        if T:
            i = rng.randrange(len(T))
            out.append(('drop_transition', fa.make(Q, S, T[:i] + T[i + 1:], q0, F)))
        p, q = rng.choice(Q), rng.choice(Q)
        out.append(('add_epsilon_move', fa.make(Q, S, T + [(p, None, q)], q0, F)))
        if S:
            out.append(('add_move', fa.make(Q, S, T + [(p, rng.choice(S), q)], q0, F)))
    rng.shuffle(out)
    out = out[:limit]
    # two targeted mutants that are always included: a language that differs ONLY on the empty word, and one that
    # differs only on a single word of a chosen (maximal) length
    init = 'init9'
    if init not in Q:
        T3 = T + [(init, a, q) for (p, a, q) in T if p == q0]
        F3 = set(F) | ({init} if q0 not in F else set())
        out.append(('differs_only_on_empty_word', fa.make(Q + [init], S, T3, init, F3)))
    if S and extra_word_len:
        RD = fa.determinize(R)[0]
        for _ in range(20):
            w = ''.join(rng.choice(S) for _ in range(extra_word_len))
            if not fa.dfa_run(RD, w):
                # product of the (determinised) automaton with a chain that recognises exactly w
                d = {(p, a): q for (p, a, q) in RD[2]}
                names = {}
                Tn, Fn = [], []

                def nm(p, i):
                    return names.setdefault((p, i), 'x%d_%s' % (p, 'd' if i is None else str(i)))
                todo = [(RD[3], 0)]
                seen = {(RD[3], 0)}
                while todo:
                    (p, i) = todo.pop()
                    if p in set(RD[4]) or i == len(w):
                        Fn.append(nm(p, i))
                    for a in S:
                        q = d[(p, a)]
                        j = (i + 1) if (i is not None and i < len(w) and w[i] == a) else None
                        Tn.append((nm(p, i), a, nm(q, j)))
                        if (q, j) not in seen:
                            seen.add((q, j))
                            todo.append((q, j))
                out.append(('one_extra_word_of_length_%d' % extra_word_len, fa.make(sorted(set(names.values())), S, Tn, nm(RD[3], 0), Fn)))
                break
    return out


def rename_states(R, fn):
    return fa.make([fn(q) for q in R[0]], R[1], [(fn(p), a, fn(q)) for (p, a, q) in R[2]], fn(R[3]), [fn(q) for q in R[4]])


def cfg_mutants(RG, rng, limit=10):
    V, S, R, S0 = RG
    R = list(R)
    out = []
    for _ in range(2):
        if len(R) > 1:
            i = rng.randrange(len(R))
            out.append(('drop_rule', cf.make(V, S, R[:i] + R[i + 1:], S0)))
    A = rng.choice(V)
    if (A, ()) not in R:
        out.append(('add_epsilon_rule', cf.make(V, S, R + [(A, ())], S0)))
    B = rng.choice(V)
    if (A, (('V', B),)) not in R:
        out.append(('add_unit_rule', cf.make(V, S, R + [(A, (('V', B),))], S0)))
    if S:
        t = rng.choice(S)
        out.append(('add_terminal_rule', cf.make(V, S, R + [(A, (('T', t),))], S0)))
        out.append(('add_long_rule', cf.make(V, S, R + [(A, (('T', t), ('V', B), ('T', t)))], S0)))
        # change one terminal occurrence
        idx = [(i, j) for i, (_, rhs) in enumerate(R) for j, (k, x) in enumerate(rhs) if k == 'T']
        if idx and len(S) > 1:
            (i, j) = rng.choice(idx)
            rhs = list(R[i][1])
            rhs[j] = ('T', rng.choice([x for x in S if x != rhs[j][1]]))
            out.append(('change_terminal', cf.make(V, S, R[:i] + [(R[i][0], tuple(rhs))] + R[i + 1:], S0)))
    # swap the order of two symbols in a rule
    idx = [i for i, (_, rhs) in enumerate(R) if len(rhs) >= 2 and rhs[0] != rhs[1]]
    if idx:
        i = rng.choice(idx)
        rhs = list(R[i][1])
        rhs[0], rhs[1] = rhs[1], rhs[0]
        out.append(('swap_symbols', cf.make(V, S, R[:i] + [(R[i][0], tuple(rhs))] + R[i + 1:], S0)))
    # the same rules with another start variable (its rules first: the simple text format takes the first rule's variable)
    others = [v for v in V if v != S0 and any(A_ == v for (A_, _) in R)]
    if others:
        B2 = rng.choice(others)
        out.append(('same_rules_other_start_variable', cf.make(V, S, [r for r in R if r[0] == B2] + [r for r in R if r[0] != B2], B2)))
    # duplicate a rule (same language)
    if R:
        out.append(('duplicate_rule_order', cf.make(V, S, R[1:] + R[:1] if R[0][0] == R[-1][0] else R, S0)))
    rng.shuffle(out)
    return out[:limit]


def rx_mutants(t, rng, syms='ab', limit=8):
    """replace / wrap / unwrap one subtree"""
    subs = []

    def walk(t, path):
        subs.append(path)
        if t[0] == '*':
            walk(t[1], path + (1,))
        elif t[0] in '+.':
            walk(t[1], path + (1,))
            walk(t[2], path + (2,))
    walk(t, ())

    def get(t, path):
        for i in path:
            t = t[i]
        return t

    def put(t, path, new):
        if not path:
            return new
        l = list(t)
        l[path[0]] = put(t[path[0]], path[1:], new)
        return tuple(l)
    out = []
    for _ in range(limit * 2):
        path = rng.choice(subs)
        sub = get(t, path)
        k = rng.randrange(6)
        if k == 0:
            new = ('*', sub)
            nm = 'wrap_star'
        elif k == 1 and sub[0] == '*':
            new = sub[1]
            nm = 'unwrap_star'
        elif k == 2 and sub[0] in '+.':
            new = ('.' if sub[0] == '+' else '+', sub[1], sub[2])
            nm = 'swap_operator'
        elif k == 3 and sub[0] in '+.':
            new = (sub[0], sub[2], sub[1])
            nm = 'swap_operands'
        elif k == 4:
            new = rng.choice([('0',), ('1',), ('s', rng.choice(syms))])
            nm = 'replace_by_leaf'
        else:
            new = ('+', sub, ('s', rng.choice(syms)))
            nm = 'add_alternative'
        m = put(t, path, new)
        if m != t and all(m != x for (_, x) in out):
            out.append((nm, m))
        if len(out) >= limit:
            break
    return out


def pda_mutants(RP, rng, limit=8):
    Q, S, G, T, q0, F = RP
    T = list(T)
    out = []
    for q in rng.sample(list(Q), min(2, len(Q))):
        out.append(('flip_final', pd.make(Q, S, G, T, q0, set(F) ^ {q})))
    if T:
        i = rng.randrange(len(T))
        out.append(('drop_move', pd.make(Q, S, G, T[:i] + T[i + 1:], q0, F)))
        (p, a, u, q, v) = T[i]
        out.append(('retarget_move', pd.make(Q, S, G, T[:i] + [(p, a, u, rng.choice(Q), v)] + T[i + 1:], q0, F)))
        if S:
            out.append(('change_input', pd.make(Q, S, G, T[:i] + [(p, rng.choice(list(S) + [None]), u, q, v)] + T[i + 1:], q0, F)))
    new = 'extra9'
    if new not in Q:
        out.append(('extra_state', pd.make(list(Q) + [new], S, G, T, q0, F)))
    rng.shuffle(out)
    return out[:limit]


def tm_mutants(RT, rng, limit=8):
    Q, S, G, D, q0, qa, qr, blank = RT
    D = list(D)
    out = []
    if D:
        i = rng.randrange(len(D))
        (p, a, q, b, d) = D[i]
        out.append(('drop_transition', tmr.make(Q, S, G, D[:i] + D[i + 1:], q0, qa, qr, blank)))
        out.append(('retarget', tmr.make(Q, S, G, D[:i] + [(p, a, rng.choice(Q), b, d)] + D[i + 1:], q0, qa, qr, blank)))
        out.append(('flip_direction', tmr.make(Q, S, G, D[:i] + [(p, a, q, b, 'L' if d == 'R' else 'R')] + D[i + 1:], q0, qa, qr, blank)))
        out.append(('to_accept', tmr.make(Q, S, G, D[:i] + [(p, a, qa, b, d)] + D[i + 1:], q0, qa, qr, blank)))
    out.append(('swap_accept_reject', tmr.make(Q, S, G, D, q0, qr, qa, blank)))
    new = 'extra9'
    if new not in Q:
        out.append(('extra_state', tmr.make(list(Q) + [new], S, G, D, q0, qa, qr, blank)))
    rng.shuffle(out)
    return out[:limit]
