"""Workload generators for pushdown automata (reference tuples, see vt/ref/pd.py)."""
import glob
import os
from vt.ref import pd


def random_pda(rng, nq, nsig, ngam, nt, gamma=None, p_eps=0.35, kinds=None):
    Q = ['q%d' % i for i in range(nq)]
    S = list('ab')[:nsig]
    G = list(gamma) if gamma is not None else list('XYZ')[:ngam]
    kinds = kinds or ['push', 'pop', 'replace', 'noop']
    T = []
    for _ in range(nt):
        p, q = rng.choice(Q), rng.choice(Q)
        a = None if (not S or rng.random() < p_eps) else rng.choice(S)
        k = rng.choice(kinds) if G else 'noop'
        if k == 'push':
            u, v = None, rng.choice(G)
        elif k == 'pop':
            u, v = rng.choice(G), None
        elif k == 'replace':
            u, v = rng.choice(G), rng.choice(G)
        else:
            u, v = None, None
        T.append((p, a, u, q, v))
    # several labels on one edge: duplicate some moves with another input letter / pushed symbol
    for _ in range(rng.choice([0, 0, 1, 2])):
        if T and G:
            (p, a, u, q, v) = rng.choice(T)
            a2 = rng.choice(list(S) + [a]) if S else a
            v2 = rng.choice(G) if v is not None else v
            T.append((p, a2, u, q, v2))
    nf = rng.choice([0, 1, 1, 1, 2, 3])
    F = rng.sample(Q, min(nf, nq))
    return pd.make(Q, S, G, T, Q[0], F)


def hostile_pdas():
    """named families: yields (class, RP)"""
    # a^n b^n with bottom marker, accepts with EMPTY stack
    yield ('anbn', pd.make(['q0', 'q1', 'q2', 'q3'], 'ab', 'A$', [('q0', None, None, 'q1', '$'), ('q1', 'a', None, 'q1', 'A'), ('q1', None, None, 'q2', None),
                                                                  ('q2', 'b', 'A', 'q2', None), ('q2', None, '$', 'q3', None)], 'q0', ['q3']))
    # acceptance with symbols left on the stack (the design-note witness): q0 -a,eps->A- q0 ; q0 -b- q1(final)
    yield ('nonempty_stack_accept', pd.make(['q0', 'q1'], 'ab', 'A', [('q0', 'a', None, 'q0', 'A'), ('q0', 'b', None, 'q1', None)], 'q0', ['q1']))
    yield ('nonempty_stack_accept', pd.make(['q0', 'q1'], 'ab', 'AB', [('q0', 'a', None, 'q0', 'A'), ('q0', 'b', 'A', 'q1', 'B'), ('q1', 'b', None, 'q1', 'B')], 'q0', ['q1']))
    # epsilon cycles: growing, keeping, shrinking the stack
    yield ('eps_cycle_grow', pd.make(['q0', 'q1'], 'a', 'X', [('q0', None, None, 'q0', 'X'), ('q0', 'a', 'X', 'q1', None)], 'q0', ['q1']))
    yield ('eps_cycle_grow', pd.make(['q0', 'q1', 'q2'], 'ab', 'XY', [('q0', None, None, 'q1', 'X'), ('q1', None, None, 'q0', 'Y'), ('q1', 'a', 'X', 'q2', None), ('q2', 'b', 'Y', 'q2', None)], 'q0', ['q2']))
    yield ('eps_cycle_keep', pd.make(['q0', 'q1'], 'a', 'X', [('q0', None, None, 'q1', None), ('q1', None, None, 'q0', None), ('q1', 'a', None, 'q1', 'X')], 'q0', ['q1']))
    yield ('eps_cycle_shrink', pd.make(['q0', 'q1', 'q2'], 'a', 'X', [('q0', 'a', None, 'q0', 'X'), ('q0', None, None, 'q1', None), ('q1', None, 'X', 'q1', None), ('q1', 'a', None, 'q2', None)], 'q0', ['q2']))
    # truncated closures: an infinite pushing branch next to a finite branch that leads to acceptance three
    # epsilon steps away - which configurations are found within a small iteration limit depends on the
    # order in which pending configurations are taken
    yield ('order_sensitive_truncation', pd.make(['q0', 'p1', 'p2', 'p3', 'qf'], 'a', 'XY', [('q0', None, None, 'q0', 'X'), ('q0', None, None, 'q0', 'Y'), ('q0', None, None, 'p1', None),
                                                 ('p1', None, None, 'p2', None), ('p2', None, None, 'p3', None), ('p3', 'a', None, 'qf', None)], 'q0', ['qf']))
    # pop on empty stack impossible
    yield ('pop_on_empty', pd.make(['q0', 'q1'], 'a', 'X', [('q0', 'a', 'X', 'q1', None), ('q0', None, 'X', 'q1', None)], 'q0', ['q1']))
    yield ('pop_on_empty', pd.make(['q0', 'q1'], 'a', 'X', [('q0', 'a', 'X', 'q1', 'X'), ('q0', 'a', None, 'q0', None)], 'q0', ['q1']))
    # several / no accepting states, accepting states with outgoing moves
    yield ('no_final', pd.make(['q0', 'q1'], 'a', 'X', [('q0', 'a', None, 'q1', 'X')], 'q0', []))
    yield ('several_final', pd.make(['q0', 'q1', 'q2'], 'ab', 'X', [('q0', 'a', None, 'q1', 'X'), ('q1', 'b', 'X', 'q2', None), ('q2', 'a', None, 'q0', None), ('q1', 'a', None, 'q1', 'X')], 'q0', ['q0', 'q1', 'q2']))
    yield ('initial_final', pd.make(['q0'], 'a', 'X', [('q0', 'a', None, 'q0', 'X'), ('q0', 'a', 'X', 'q0', None)], 'q0', ['q0']))
    # two replace moves on ONE edge that pop the same symbol, read different letters and push different symbols
    yield ('parallel_replace_moves', pd.make(['q0', 'q1', 'q2', 'q3'], 'abcd', 'XYZ', [('q0', None, None, 'q1', 'X'), ('q1', 'a', 'X', 'q2', 'Y'), ('q1', 'b', 'X', 'q2', 'Z'),
                                            ('q2', 'c', 'Y', 'q3', None), ('q2', 'd', 'Z', 'q3', None)], 'q0', ['q3']))
    yield ('parallel_noop_moves', pd.make(['q0', 'q1', 'q2'], 'ab', 'X', [('q0', 'a', None, 'q1', None), ('q0', 'b', None, 'q1', None), ('q1', 'a', None, 'q2', 'X'), ('q1', 'b', None, 'q0', None),
                                          ('q2', None, 'X', 'q0', None)], 'q0', ['q1']))
    # replace and no-op moves only
    yield ('replace_noop', pd.make(['q0', 'q1', 'q2'], 'ab', 'XY', [('q0', 'a', None, 'q1', 'X'), ('q1', 'b', 'X', 'q1', 'Y'), ('q1', 'a', 'Y', 'q2', 'X'), ('q2', 'b', None, 'q0', None), ('q2', None, None, 'q1', None)], 'q0', ['q2']))
    # marker collisions
    yield ('gamma_has_dollar', pd.make(['q0', 'q1'], 'ab', '$X', [('q0', 'a', None, 'q0', '$'), ('q0', 'b', '$', 'q1', None), ('q1', 'b', '$', 'q1', 'X')], 'q0', ['q1']))
    yield ('gamma_has_all_markers', pd.make(['q0', 'q1'], 'ab', '$@#*&!?', [('q0', 'a', None, 'q0', '$'), ('q0', 'b', '$', 'q1', '@'), ('q1', 'a', '@', 'q1', '#'), ('q1', 'b', '#', 'q0', '?')], 'q0', ['q1']))
    yield ('gamma_has_emptyset_symbol', pd.make(['q0', 'q1'], 'ab', '∅X', [('q0', 'a', None, 'q0', '∅'), ('q0', 'b', '∅', 'q1', 'X'), ('q1', None, None, 'q0', None)], 'q0', ['q1']))
    # state names colliding with the helper names
    yield ('state_name_collisions', pd.make(['q_accept1', 'q_initial1', 'M1'], 'ab', 'X', [('q_accept1', 'a', None, 'q_initial1', 'X'), ('q_initial1', 'b', 'X', 'M1', 'X'), ('M1', None, None, 'q_accept1', None)], 'q_accept1', ['M1', 'q_initial1']))
    # empty alphabets
    yield ('sigma_empty', pd.make(['q0', 'q1'], '', 'X', [('q0', None, None, 'q1', 'X')], 'q0', ['q1']))
    yield ('gamma_empty', pd.make(['q0', 'q1'], 'a', '', [('q0', 'a', None, 'q1', None), ('q1', None, None, 'q0', None)], 'q0', ['q1']))


def shipped_pdas(repo):
    from gambatools.pda_algorithms import parse_pda
    from vt import adapt
    out = []
    for p in sorted(glob.glob(os.path.join(repo, 'examples', '*.pda'))):
        try:
            with open(p, encoding='utf8') as f:
                P = parse_pda(f.read())
            out.append((os.path.basename(p), adapt.pda_ref(P), P.epsilon))
        except Exception:
            pass
    return out


def rename(RP, mapping):
    f = lambda q: mapping[q]
    return pd.make([f(q) for q in RP[0]], RP[1], RP[2], [(f(p), a, u, f(q), v) for (p, a, u, q, v) in RP[3]], f(RP[4]), [f(q) for q in RP[5]])


def colliding_names(rng, RP):
    """the same PDA with state names that are prefixes of each other and stack symbols drawn from the characters
    that extend them (q / q1 / q11 with the stack symbol 1, A / AB with B): a configuration key built by plain
    concatenation of state and stack cannot tell (q,[1]) from (q1,[])"""
    pools = [(['q', 'q1', 'q11', 'q10', 'q0'], ['1', '0']), (['A', 'AB', 'ABB', 'AA', 'B'], ['B', 'A']), (['s', 'sX', 'sXY', 'sY', 'sXX'], ['X', 'Y'])]
    (names, syms) = rng.choice(pools)
    if len(RP[0]) > len(names) or len(RP[2]) > len(syms):
        return None
    names = names[:]
    rng.shuffle(names)
    qm = dict(zip(RP[0], names))
    gm = dict(zip(RP[2], syms))
    g = lambda x: None if x is None else gm[x]
    if set(gm.values()) & set(RP[1]):
        return None
    return pd.make([qm[q] for q in RP[0]], RP[1], [gm[x] for x in RP[2]], [(qm[p], a, g(u), qm[q], g(v)) for (p, a, u, q, v) in RP[3]], qm[RP[4]], [qm[q] for q in RP[5]])


def helper_names_with_gaps(rng, RP):
    """state names that look like the helper states of the normal-form constructions, with gaps in the numbering
    (M2 without M1, q_accept2 without q_accept1, ...)"""
    pool = ['M2', 'M3', 'M5', 'q_accept2', 'q_accept3', 'q_drain2', 'q_initial2', 'q_initial3', 'M1', 'q0']
    rng.shuffle(pool)
    if len(RP[0]) > len(pool):
        return None
    return rename(RP, dict(zip(RP[0], pool[:len(RP[0])])))


def multichar_stack_symbols(rng, RP):
    """the same PDA with multi-character stack symbols that contain each other (Z0 / Z / ZZ): legal for PDA objects
    built directly (Sipser style bottom marker Z0), not expressible in the text format"""
    pools = [['Z0', 'Z', 'ZZ'], ['A', 'AB', 'B'], ['$', '$$', '$1']]
    syms = rng.choice(pools)
    if len(RP[2]) > len(syms) or set(syms) & set(RP[1]):
        return None
    gm = dict(zip(RP[2], syms))
    g = lambda x: None if x is None else gm[x]
    return pd.make(RP[0], RP[1], [gm[x] for x in RP[2]], [(p, a, g(u), q, g(v)) for (p, a, u, q, v) in RP[3]], RP[4], RP[5])


def empty_stack_acceptor(rng):
    """PDA over one stack symbol per 'bracket' whose accepting states can only be entered with an empty stack by construction
    of the moves: the control states form a cycle q0 -> q1 -> ... -> q0 in which pushes and pops of the same symbol are
    nested, and q0 (entered with empty stack only when the brackets are closed) is the accepting state; sometimes the initial state is
    the only accepting one, sometimes a second accepting state is reached by a non-stack move from q0"""
    k = rng.randint(1, 3)
    Q = ['q%d' % i for i in range(k + 1)] if rng.random() < 0.8 else ['s', 't', 'u', 'v'][:k + 1]
    syms = 'ab'[:rng.randint(1, 2)]
    G = ['X', 'Y'][:rng.randint(1, 2)]
    T = []
    q0 = Q[0]
    shape = rng.randrange(3)
    if shape == 0:
        # (a^n b^n)* style: q0 -a,push-> q1 ; q1 -a,push-> q1 ; q1 -b,pop-> q0|q1
        X = G[0]
        a, b = syms[0], syms[-1]
        q1 = Q[1]
        T += [(q0, a, None, q1, X), (q1, b, X, q0, None)]
        if rng.random() < 0.5:
            T += [(q1, a, None, q1, X), (q1, b, X, q1, None)]
        F = [q0]
    elif shape == 1:
        # Dyck-like single state loop with marker-free counting: accept in q0; pops lead back to q0
        X = G[0]
        T += [(q0, syms[0], None, q0, X), (q0, syms[-1], X, q0, None)]
        if len(Q) > 1:
            T += [(q0, None, None, Q[1], None)]
        F = [q0]
    else:
        # push in q0, cross to q1 on epsilon or a symbol, pop everything, epsilon back to q0 only with a pop of the last symbol
        X = G[0]
        q1 = Q[1]
        T += [(q0, syms[0], None, q1, X), (q1, syms[0], None, q1, X), (q1, syms[-1], X, Q[-1], None), (Q[-1], syms[-1], X, Q[-1], None)]
        F = [q0]
    if rng.random() < 0.3:
        T.append((q0, rng.choice(syms), None, q0, None))
    return pd.make(Q, syms, G, T, q0, F)


def exotic_names(rng, RP, allow_quote=True):
    """the same PDA with unusual but legal state names for directly built automata: the empty string, blanks, punctuation,
    brackets (never for the text formats)"""
    from vt.gen import fag
    for _ in range(5):
        names = fag.random_names(rng, len(RP[0]), exotic=True)
        if not allow_quote and any("'" in x for x in names):
            continue
        if len(set(names)) == len(RP[0]) and not (set(names) & set(RP[2])):
            return rename(RP, dict(zip(RP[0], names)))
    return None


def many_moves_pda(rng, nt):
    """PDA with nt (11..24) transitions most of which are no-op or replace moves (each needs an intermediate state of its own
    in the push/pop normal form): a DFA-like control over 3..4 states and 2..3 letters with a few stack moves mixed in"""
    nq = rng.randint(3, 4)
    Q = ['q%d' % i for i in range(nq)]
    S = list('abc')[:rng.randint(2, 3)]
    G = ['X', 'Y'][:rng.randint(1, 2)]
    T = []
    seen = set()
    while len(T) < nt:
        p, q = rng.choice(Q), rng.choice(Q)
        a = rng.choice(S) if rng.random() < 0.9 else None
        k = rng.random()
        if k < 0.6:
            u, v = None, None
        elif k < 0.8:
            u, v = rng.choice(G), rng.choice(G)
        elif k < 0.9:
            u, v = None, rng.choice(G)
        else:
            u, v = rng.choice(G), None
        m = (p, a, u, q, v)
        if m not in seen and not (a is None and u is None and v is None and p == q):
            seen.add(m)
            T.append(m)
    F = rng.sample(Q, rng.randint(1, 2))
    return pd.make(Q, S, G, T, Q[0], F)


def concatenation_ambiguous_stacks():
    """PDAs (built directly) whose stack alphabet has a symbol that is the concatenation of others (ab = a + b, xx = x + x):
    two different stacks spell the same string.  Both stacks are reachable in the same state on inputs of the same length
    and only ONE of them leads to acceptance for a given continuation, so any configuration identity based on the joined
    stack text loses an accepting computation (or finds a spurious one).  yields (class, RP)"""
    for (s1, s2, cat) in (('a', 'b', 'ab'), ('x', 'x', 'xx'), ('ab', 'c', 'abc'), ('Z', '0', 'Z0')):
        G = sorted({s1, s2, cat})
        # epsilon route: push cat in one move / push s1 then s2 in two moves; the letter read next decides which stack is needed
        T = [('q0', None, None, 'q1', cat), ('q0', None, None, 'm', s1), ('m', None, None, 'q1', s2),
             ('q1', 'x', cat, 'f', None), ('q1', 'y', s2, 'r', None), ('r', None, s1, 'g', None)]
        yield ('concatenation_ambiguous_stack_eps', pd.make(['q0', 'm', 'q1', 'f', 'r', 'g'], 'xy', G, T, 'q0', ['f', 'g']))
        # letter route: 'u' pushes cat, 'v' then 'w' ... both routes read two letters before q1
        T = [('q0', 'u', None, 'h', None), ('h', 'u', None, 'q1', cat), ('q0', 'v', None, 'm', s1), ('m', 'v', None, 'q1', s2),
             ('q1', 'x', cat, 'f', None), ('q1', 'y', s2, 'r', None), ('r', None, s1, 'g', None), ('q1', 'x', s2, 'dead', None)]
        yield ('concatenation_ambiguous_stack_letters', pd.make(['q0', 'h', 'm', 'q1', 'f', 'r', 'g', 'dead'], 'uvxy', G, T, 'q0', ['f', 'g']))


def guess_bits(k):
    """a FINITE epsilon closure that needs about 2^(k+1) closure iterations: push a bottom marker, guess k bits by epsilon moves,
    read one a, then unwind by epsilon moves - only the all-ones stack (the last configuration a breadth-first closure finds) reaches
    the accepting state.  Language {a}.  Used with closure limits ABOVE the default of 1000 (round 13, C02_m)."""
    Q = ['g%d' % i for i in range(k + 1)] + ['s', 'u', 'f']
    T = [('s', None, None, 'g0', '$')]
    for i in range(k):
        T += [('g%d' % i, None, None, 'g%d' % (i + 1), '0'), ('g%d' % i, None, None, 'g%d' % (i + 1), '1')]
    T += [('g%d' % k, 'a', None, 'u', None), ('u', None, '1', 'u', None), ('u', None, '$', 'f', None)]
    return pd.make(Q, 'a', '01$', T, 's', ['f'])
