"""Random automata inside the domain of the text formats: \\w+ state names that are not keywords,
single-character \\w input symbols, stack / tape symbols from the documented punctuation set,
printable epsilon / blank."""
from vt.ref import fa, pd, tmr
from vt.gen import fag

IN_SYMS = 'ab01xyzAB9'
STACK_SYMS = 'XYZ$@#01~!%^&*ab'
TAPE_SYMS = 'ab01xy#$@~!%^&*'


def names(rng, n):
    return fag.random_names(rng, n)


def dfa(rng):
    n = rng.randint(1, 6)
    k = rng.randint(0, 3)
    S = rng.sample(IN_SYMS, k)
    Q = names(rng, n)
    T = [(q, a, rng.choice(Q)) for q in Q for a in S]
    F = [q for q in Q if rng.random() < rng.choice([0.0, 0.4, 1.0])]
    return fa.make(Q, S, T, rng.choice(Q), F)


def nfa(rng):
    n = rng.randint(1, 6)
    k = rng.randint(0, 3)
    S = rng.sample(IN_SYMS, k)
    Q = names(rng, n)
    dens = rng.choice([0.0, 0.15, 0.4])
    T = []
    for p in Q:
        for a in list(S) + [None]:
            for q in Q:
                if rng.random() < dens:
                    T.append((p, a, q))
    F = [q for q in Q if rng.random() < rng.choice([0.0, 0.4, 1.0])]
    return fa.make(Q, S, T, rng.choice(Q), F), rng.choice(['_', 'ε', 'e', 'E'])


def pda(rng):
    n = rng.randint(1, 5)
    S = rng.sample('ab01xy', rng.randint(0, 2))
    G = rng.sample(STACK_SYMS, rng.randint(0, 3))
    G = [g for g in G]
    Q = names(rng, n)
    T = []
    for _ in range(rng.randint(0, 9)):
        a = rng.choice(list(S) + [None]) if S else None
        u = rng.choice(list(G) + [None, None]) if G else None
        v = rng.choice(list(G) + [None, None]) if G else None
        T.append((rng.choice(Q), a, u, rng.choice(Q), v))
    F = [q for q in Q if rng.random() < rng.choice([0.0, 0.4, 1.0])]
    eps = rng.choice(['_', 'ε', 'e'])
    if eps in S or eps in G:
        eps = 'ε'
    return pd.make(Q, S, G, T, rng.choice(Q), F), eps


def tm(rng):
    n = rng.randint(0, 4)
    Q = names(rng, n + 2)
    qa, qr = Q[-2], Q[-1]
    if rng.random() < 0.3:
        qr = 'reject'
        Q = [q for q in Q[:-1] if q != 'reject'] + ['reject']
        qa = Q[-2] if len(Q) >= 2 else 'acc'
        if qa == qr or len(Q) < 2:
            Q = ['acc', 'reject']
            qa = 'acc'
    blank = rng.choice(['_', '□', 'B'])
    pool = [c for c in TAPE_SYMS if c != blank]
    G0 = rng.sample(pool, rng.randint(0, 4))
    S = [g for g in G0 if rng.random() < 0.6]
    if rng.random() < 0.2:
        S = []
    G = G0 + [blank]
    D = []
    for p in Q:
        if (p in (qa, qr) and rng.random() < 0.8) or p in fag.KEYWORDS:
            continue      # a line that starts with a keyword is not a transition line
        for a in G:
            if rng.random() < rng.choice([0.0, 0.5, 0.9]):
                D.append((p, a, rng.choice(Q), rng.choice(G), rng.choice('LR')))
    return tmr.make(Q, S, G, D, rng.choice(Q), qa, qr, blank)


# ---------------------------------------------------------------- many labels on one edge / large alphabets
WIDE = 'abcdefghijklmnopqrstuvwxyz0123456789ABCDEFGH'


def dfa_wide(rng):
    """1..3 states, 9..33 input symbols: (almost) all symbols lead from one state to the same target"""
    n = rng.randint(1, 3)
    S = rng.sample(WIDE, rng.choice([9, 10, 15, 16, 17, 26, 33]))
    Q = names(rng, n)
    tgt = {q: rng.choice(Q) for q in Q}
    T = [(q, a, tgt[q] if rng.random() < 0.9 else rng.choice(Q)) for q in Q for a in S]
    return fa.make(Q, S, T, Q[0], [q for q in Q if rng.random() < 0.5])


def nfa_wide(rng):
    n = rng.randint(1, 3)
    S = rng.sample(WIDE, rng.choice([9, 10, 15, 16, 17, 26]))
    Q = names(rng, n)
    T = []
    p, q = rng.choice(Q), rng.choice(Q)
    for a in S:
        if rng.random() < 0.9:
            T.append((p, a, q))
        if rng.random() < 0.2:
            T.append((rng.choice(Q), a, rng.choice(Q)))
    if rng.random() < 0.5:
        T.append((p, None, q))
    return fa.make(Q, S, T, Q[0], [x for x in Q if rng.random() < 0.5]), rng.choice(['_', 'ε'])


def pda_wide(rng):
    n = rng.randint(1, 3)
    S = rng.sample('abxy01', rng.randint(2, 4))
    G = rng.sample(STACK_SYMS, rng.randint(2, 4))
    Q = names(rng, n)
    p, q = rng.choice(Q), rng.choice(Q)
    T = set()
    want = rng.choice([9, 10, 12, 16, 17, 20, 33])
    labels = [(a, u, v) for a in list(S) + [None] for u in list(G) + [None] for v in list(G) + [None]]
    rng.shuffle(labels)
    for (a, u, v) in labels[:want]:
        T.add((p, a, u, q, v))
    eps = rng.choice(['_', 'ε'])
    if eps in S or eps in G:
        eps = 'ε'
    return pd.make(Q, S, G, sorted(T, key=repr), Q[0], [x for x in Q if rng.random() < 0.5]), eps


def tm_wide(rng):
    Q = names(rng, 3)
    qa, qr = Q[-2], Q[-1]
    blank = rng.choice(['_', '□'])
    G0 = rng.sample([c for c in WIDE[:36] + '#$@~!^&*'], rng.choice([9, 10, 16, 17, 20]))
    S = [g for g in G0 if rng.random() < 0.5 and g.isalnum()]
    G = G0 + [blank]
    p = Q[0]
    if p in fag.KEYWORDS:
        p = 'w'
        Q = ['w'] + Q[1:]
    D = [(p, a, rng.choice([p, qa]) if rng.random() < 0.9 else qr, rng.choice(G), rng.choice('LR')) for a in G]
    return tmr.make(Q, S, G, D, p, qa, qr, blank)
