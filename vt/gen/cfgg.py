"""Workload generators for context-free grammars (reference tuples, see vt/ref/cf.py).
Variables are upper-case names, terminals lower-case letters / digits (the library compares
Terminal('A') == Variable('A') as strings, clashes are outside every property's domain)."""
import itertools
from vt.ref import cf


def V(x):
    return ('V', x)


def T(x):
    return ('T', x)


def enum_grammars(max_rules=3, variables=('S', 'A'), terminals=('a', 'b'), max_rhs=2):
    syms = [V(v) for v in variables] + [T(t) for t in terminals]
    rhss = [()]
    for L in range(1, max_rhs + 1):
        rhss += list(itertools.product(syms, repeat=L))
    rules = [(A, r) for A in variables for r in rhss]
    for k in range(1, max_rules + 1):
        for R in itertools.combinations(rules, k):
            used_t = sorted({x for (_, r) in R for (kk, x) in r if kk == 'T'})
            yield cf.make(variables, used_t if used_t else (), R, variables[0])


def count_enum_grammars(max_rules=3, nv=2, nt=2, max_rhs=2):
    import math
    n = nv * sum((nv + nt) ** L for L in range(0, max_rhs + 1))
    return sum(math.comb(n, k) for k in range(1, max_rules + 1))


VARS = 'SABCDEFGHIJKLMNOPQRTUVWXYZ'


def random_grammar(rng, nv, nr, max_rhs=5, nt=2, p_eps=0.15, p_unit=0.2, variables=None):
    vs = list(variables or VARS[:nv])
    ts = list('abc')[:nt]
    R = []
    for i in range(nr):
        A = vs[i] if i < len(vs) and rng.random() < 0.7 else rng.choice(vs)
        x = rng.random()
        if x < p_eps:
            rhs = ()
        elif x < p_eps + p_unit:
            rhs = (V(rng.choice(vs)),)
        else:
            L = rng.randint(1, max_rhs)
            rhs = tuple(V(rng.choice(vs)) if rng.random() < 0.45 else T(rng.choice(ts)) for _ in range(L))
        if (A, rhs) not in R:
            R.append((A, rhs))
    used_t = sorted({x for (_, r) in R for (k, x) in r if k == 'T'})
    return cf.make(vs, used_t, R, vs[0])


def random_cnf(rng, nv, nr, nt=2, start_eps=None, variables=None):
    """directly generated Chomsky normal form grammar (Sipser): A->BC with B,C != S, A->a, S->eps"""
    vs = list(variables or VARS[:nv])
    ts = list('abc')[:nt]
    S = vs[0]
    others = vs[1:] or None
    R = []
    for A in vs:
        R.append((A, (T(rng.choice(ts)),)) if rng.random() < 0.7 or others is None else (A, (V(rng.choice(others)), V(rng.choice(others)))))
    for _ in range(nr):
        A = rng.choice(vs)
        if others is not None and rng.random() < 0.6:
            r = (A, (V(rng.choice(others)), V(rng.choice(others))))
        else:
            r = (A, (T(rng.choice(ts)),))
        if r not in R:
            R.append(r)
    if start_eps if start_eps is not None else rng.random() < 0.3:
        R.append((S, ()))
    rng.shuffle(R)
    used_t = sorted({x for (_, r) in R for (k, x) in r if k == 'T'})
    return cf.make(vs, used_t, R, S)


def hostile_grammars(rng):
    """named families: yields (class, RG)"""
    S, A, B, C = 'S', 'A', 'B', 'C'
    a, b = T('a'), T('b')
    yield ('nullable_start', cf.make('SA', 'ab', [(S, (V(A), V(A))), (A, (a,)), (A, ())], S))
    yield ('nullable_start', cf.make('S', 'a', [(S, (V(S), V(S))), (S, (a,)), (S, ())], S))
    yield ('start_on_rhs', cf.make('SA', 'ab', [(S, (a, V(S), b)), (S, (V(A),)), (A, (b, V(S))), (A, ())], S))
    yield ('cyclic_unit', cf.make('SAB', 'ab', [(S, (V(A),)), (A, (V(B),)), (B, (V(A),)), (B, (a,)), (A, (V(A),)), (S, (V(S), b))], S))
    yield ('cyclic_unit', cf.make('SA', 'a', [(S, (V(S),)), (S, (V(A),)), (A, (V(S),)), (A, (a, a))], S))
    yield ('shared_rhs', cf.make('SABC', 'ab', [(S, (V(A),)), (S, (V(B),)), (A, (V(C),)), (B, (V(C),)), (C, (a, V(C), b, a)), (C, (b,)), (C, (a, a, a))], S))
    yield ('unproductive', cf.make('SAB', 'ab', [(S, (V(A), V(B))), (S, (a,)), (A, (a, V(A))), (B, (b,))], S))
    yield ('unreachable', cf.make('SAB', 'ab', [(S, (a, V(S))), (S, ()), (A, (b, V(B))), (B, (a,))], S))
    yield ('empty_language', cf.make('SA', 'a', [(S, (V(A), a)), (A, (V(S),))], S))
    yield ('only_epsilon', cf.make('S', '', [(S, ())], S))
    yield ('no_rule_for_variable', cf.make('SA', 'a', [(S, (a, V(A))), (S, (a,))], S))
    yield ('long_rhs', cf.make('SA', 'ab', [(S, (a, V(A), b, V(A), a, V(A))), (A, (b,)), (A, ())], S))
    yield ('shipped_cfg2', cf.make('SAB', 'ab', [(S, (V(A), V(S), V(A))), (S, (a, V(B))), (A, (V(B),)), (A, (V(S),)), (B, (b,)), (B, ())], S))
    yield ('palindromes', cf.make('S', 'ab', [(S, (a, V(S), a)), (S, (b, V(S), b)), (S, (a,)), (S, (b,)), (S, ())], S))
    yield ('balanced', cf.make('S', 'ab', [(S, (V(S), V(S))), (S, (a, V(S), b)), (S, ())], S))


def many_variables(rng, nv):
    """chain grammar with nv variables V0..: crosses the 26-letter boundary of cfg_fresh_variable"""
    names = list(VARS[:min(nv, 26)]) + ['K%d' % i for i in range(max(0, nv - 26))]
    R = []
    for i, A in enumerate(names):
        nxt = names[(i + 1) % len(names)]
        R.append((A, (T('a'), V(nxt), T('b')) if i % 3 == 0 else (V(nxt), T('a'))))
        if i % 4 == 1:
            R.append((A, ()))
        if i % 5 == 2:
            R.append((A, (T('b'), T('a'), T('b'))))
    R.append((names[-1], (T('a'),)))
    return cf.make(names, 'ab', R, names[0])


def rename_vars(RG, mapping):
    f = lambda x: mapping.get(x, x)
    R = [(f(A), tuple((k, f(x)) if k == 'V' else (k, x) for (k, x) in rhs)) for (A, rhs) in RG[2]]
    return cf.make([f(v) for v in RG[0]], RG[1], R, f(RG[3]))


def random_var_renaming(rng, RG):
    vs = list(RG[0])
    pool = [c for c in 'ABCDEFGHIJKLMNOPQRSTUVWXYZ']
    rng.shuffle(pool)
    return rename_vars(RG, dict(zip(vs, pool[:len(vs)]))) if len(vs) <= 26 else RG


def unit_cycle_grammar(rng, k=None):
    """k variables on a cycle of unit rules, extra unit chords / side exits, every variable with its own
    terminal alternatives listed before or after the unit alternatives"""
    k = k or rng.randint(2, 6)
    vs = rng.sample('ABCDEFGHIJKLMNOPQRSUVWXYZ', k)
    ts = 'abc'
    R = []
    own = {A: [(T(ts[i % 3]), T('x')) if i % 2 == 0 else (T(ts[i % 3]),) for _ in range(1)] for i, A in enumerate(vs)}
    for i, A in enumerate(vs):
        alts = [(V(vs[(i + 1) % k]),)]
        for _ in range(rng.randint(0, 2)):
            alts.append((V(rng.choice(vs)),))
        alts += own[A]
        if rng.random() < 0.3:
            alts.append((T(rng.choice(ts)), V(rng.choice(vs))))
        rng.shuffle(alts)
        for a in alts:
            if (A, a) not in R:
                R.append((A, a))
    start = vs[0]
    R = [r for r in R if r[0] == start] + [r for r in R if r[0] != start]
    used_t = sorted({x for (_, r) in R for (kk, x) in r if kk == 'T'})
    return cf.make(vs, used_t, R, start)


def redundant_cnf(rng):
    """CNF grammar in which several variables derive the same subwords by different rules"""
    ts = list('ab')[:rng.randint(1, 2)]
    tv = {}
    names = list('ABCDEFGHIJKLMNOPQRUVWXYZ')
    rng.shuffle(names)
    R = []
    term_vars = []
    for t in ts:
        for _ in range(rng.randint(1, 3)):
            A = names.pop()
            term_vars.append(A)
            R.append((A, (T(t),)))
    mids = []
    for _ in range(rng.randint(2, 5)):
        X = names.pop()
        for _ in range(rng.randint(1, 2)):
            pool = term_vars + mids
            r = (X, (V(rng.choice(pool)), V(rng.choice(pool))))
            if r not in R:
                R.append(r)
        mids.append(X)
    S = 'S'
    for _ in range(rng.randint(1, 3)):
        pool = term_vars + mids
        r = (S, (V(rng.choice(pool)), V(rng.choice(pool))))
        if r not in R:
            R.append(r)
    if rng.random() < 0.3:
        R.append((S, (T(rng.choice(ts)),)))
    R = [r for r in R if r[0] == S] + [r for r in R if r[0] != S]
    vs = sorted({A for (A, _) in R})
    return cf.make(vs, ts, R, S)


AMBIGUOUS_NAMES = ['A', 'B', 'AB', 'BA', 'AA', 'BB', 'ABA', 'BAB', 'X', 'XX', 'XXX', 'S', 'SS']


def multichar_renaming(rng, RG):
    """the same grammar with multi-character variable names whose concatenations are ambiguous
    (['A','BC'] and ['AB','C'] both spell ABC): legal for CFG objects built through the API
    (pda_to_cfg and the conversion with >= 26 variables produce multi-character names as well)"""
    vs = list(RG[0])
    pool = list(AMBIGUOUS_NAMES)
    rng.shuffle(pool)
    if len(vs) > len(pool):
        return RG
    return rename_vars(RG, dict(zip(vs, pool[:len(vs)])))


def start_twins(RG):
    """grammars with the same rule list, variables and terminals but another start variable"""
    return [cf.make(RG[0], RG[1], RG[2], v) for v in RG[0] if v != RG[3]]


def ambiguous_concat_cnf(rng):
    """CNF grammar in which two different right-hand sides / sentential forms spell the same string when the
    variable names are concatenated: S -> A BA | AB A (both spell ABA), each variable with its own terminals"""
    splits = [(('A', 'BA'), ('AB', 'A')), (('A', 'BC'), ('AB', 'C')), (('X', 'XX'), ('XX', 'X')), (('A', 'AB'), ('AA', 'B')), (('AB', 'AB'), ('A', 'BAB'))]
    (l1, l2) = rng.choice(splits)
    vs = sorted(set(l1) | set(l2) | {'S'})
    ts = 'abcdef'
    R = [('S', (V(l1[0]), V(l1[1]))), ('S', (V(l2[0]), V(l2[1])))]
    if rng.random() < 0.5:
        R.reverse()
    for i, A in enumerate([v for v in vs if v != 'S']):
        R.append((A, (T(ts[i % len(ts)]),)))
        if rng.random() < 0.4:
            R.append((A, (V(rng.choice([v for v in vs if v != 'S'])), V(rng.choice([v for v in vs if v != 'S'])))))
    used_t = sorted({x for (_, r) in R for (k, x) in r if k == 'T'})
    return cf.make(vs, used_t, R, 'S')


def ambiguous_long_rules(rng):
    """non-CNF grammar with long rules whose TAILS spell the same string when the symbol names are concatenated:
    S -> x A B c | y AB c  (tails A.B.c and AB.c)"""
    splits = [(('A', 'B'), ('AB',)), (('A', 'BC'), ('AB', 'C')), (('X', 'XX'), ('XX', 'X')), (('A', 'A', 'B'), ('AA', 'B'))]
    (t1, t2) = rng.choice(splits)
    vs = sorted(set(t1) | set(t2) | {'S'})
    R = [('S', (T('x'),) + tuple(V(v) for v in t1) + (T('a'),)), ('S', (T('y'),) + tuple(V(v) for v in t2) + (T('a'),))]
    if rng.random() < 0.5:
        R.reverse()
    ts = 'abx'
    for i, A in enumerate([v for v in vs if v != 'S']):
        R.append((A, (T(ts[i % len(ts)]),)))
    used_t = sorted({x for (_, r) in R for (k, x) in r if k == 'T'})
    return cf.make(vs, used_t, R, 'S')


def terminal_renaming(rng, RG, pool=None):
    """the same grammar over other terminal symbols: digits / punctuation, for which str.upper() is the identity
    (the terminal-isolating phase derives its variable names from the terminals)"""
    pool = pool or rng.choice(['01', '012', '#$', '0#', '1a', '_0'])
    ts = list(RG[1])
    if len(ts) > len(pool):
        pool = pool + ''.join(c for c in 'abcdefgh' if c not in pool)
    mp = dict(zip(ts, pool))
    R = tuple((A, tuple((k, mp[x]) if k == 'T' else (k, x) for (k, x) in rhs)) for (A, rhs) in RG[2])
    return cf.make(RG[0], [mp[t] for t in ts], R, RG[3])


def composite_start_name(rng, RG):
    """the same grammar with a multi-character START variable whose characters are the names of other variables
    (S0 next to S, AB next to A and B): set(name) / `x in name` on the start variable then mean something else"""
    others = [v for v in RG[0] if v != RG[3] and len(v) == 1]
    if not others:
        return rename_vars(RG, {RG[3]: RG[3] + '0'})
    a = rng.choice(others)
    b = rng.choice(others)
    new = rng.choice([a + '0', a + b, b + a, a + a, a + "1"])
    if new in RG[0]:
        new = a + '00'
    return rename_vars(RG, {RG[3]: new})


def cnf_shape_with_inner_epsilon(rng):
    """every rule has Chomsky-normal-form SHAPE and the start variable is on no right hand side, but a non-start
    variable has an epsilon rule (so the grammar is not in normal form and words may need that rule)"""
    nv = rng.randint(2, 5)
    RG = random_cnf(rng, nv, rng.randint(1, 6), nt=rng.randint(1, 2), start_eps=rng.random() < 0.3)
    others = [v for v in RG[0] if v != RG[3]]
    R = list(RG[2])
    for A in rng.sample(others, rng.randint(1, min(2, len(others)))):
        if (A, ()) not in R:
            R.insert(rng.randrange(len(R) + 1), (A, ()))
    return cf.make(RG[0], RG[1], R, RG[3])


def long_rhs_grammar(rng, L, nv_extra=0):
    """one right-hand side of L NON-nullable variables (epsilon-rule removal is exponential in the number of nullable symbols of
    one rule, so none here): every variable derives exactly one letter, the last three have letters of their own, one position
    has two alternatives.  The language is two words of length L: dropping, repeating or merging ANY helper variable of the
    splitting phase changes it.  nv_extra further variables push the grammar across the 26-variable boundary.
    Returns (grammar, words worth asking: the two words and near misses)"""
    names = ['P', 'Q', 'R'][:rng.randint(2, 3)]
    tail = ['X', 'Y', 'Z']
    letters = {'P': 'a', 'Q': 'b', 'R': 'a', 'X': 'x', 'Y': 'y', 'Z': 'z'}
    body = [rng.choice(names) for _ in range(L - 3)]
    wpos = rng.randrange(len(body))
    body[wpos] = 'W'                                   # the ONE position with two alternatives (W -> a | b)
    letters['W'] = 'a'
    R = [('S', tuple(V(x) for x in body + tail))]
    for A in names + tail + ['W']:
        R.append((A, (T(letters[A]),)))
    R.append(('W', (T('b'),)))
    extra = [c for c in 'ABCDEFGHIJKLMNOTUV'][:nv_extra] + ['K%d' % i for i in range(max(0, nv_extra - 18))]
    for A in extra:
        R.append((A, (T('a'),)))
    RG = cf.make(['S', 'W'] + names + tail + extra, 'abxyz', R, 'S')
    w = ''.join(letters[x] for x in body + tail)
    near = [w, w[:-2] + w[-1], w[:-1], w[:-3] + w[-2:], w[:5] + w[6:], w + 'z', w[:-3] + 'y' + w[-3:], w[:-4] + w[-3:]]
    near.append(w[:wpos] + 'b' + w[wpos + 1:])
    return RG, near


def random_long_words(rng, RG, count=4, min_len=8, max_len=14, tries=200):
    """words of the language obtained by random leftmost derivation (reference side), plus near misses"""
    by = {}
    for (A, rhs) in RG[2]:
        by.setdefault(A, []).append(rhs)
    out = []
    for _ in range(tries):
        form = [('V', RG[3])]
        steps = 0
        while steps < 400 and any(k == 'V' for (k, _) in form) and len(form) <= max_len + 6:
            i = next(j for j, (k, _) in enumerate(form) if k == 'V')
            alts = by.get(form[i][1])
            if not alts:
                break
            # prefer growing alternatives while short, terminating ones when long
            terms = sum(1 for (k, _) in form if k == 'T')
            pick = rng.choice(alts)
            if terms + len(form) > max_len:
                short = [a for a in alts if all(k == 'T' for (k, _) in a)]
                if short:
                    pick = rng.choice(short)
            form = form[:i] + list(pick) + form[i + 1:]
            steps += 1
        if all(k == 'T' for (k, _) in form):
            w = ''.join(x for (_, x) in form)
            if min_len <= len(w) <= max_len and w not in out:
                out.append(w)
                if len(out) >= count:
                    break
    near = []
    for w in out:
        near += [w[:-1], w[1:], w[:len(w) // 2] + w[len(w) // 2 + 1:], w + w[-1]]
    return out + near[:count * 2]
