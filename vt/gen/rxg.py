"""Workload generators for regular expressions (reference trees, see vt/ref/rx.py)."""
from functools import lru_cache
from vt.ref import rx

LEAVES = (('0',), ('1',), ('s', 'a'), ('s', 'b'))
# symbols that PRINT like the constants 0 and 1 (objects built in code, e.g. by dfa_to_regexp on a binary DFA)
LEAVES01 = (('0',), ('1',), ('s', '0'), ('s', '1'))


@lru_cache(maxsize=None)
def trees_with_nodes(n, leaves=LEAVES):
    """all trees with exactly n nodes"""
    if n == 1:
        return tuple(leaves)
    out = []
    for t in trees_with_nodes(n - 1, leaves):
        out.append(('*', t))
    for i in range(1, n - 1):
        for l in trees_with_nodes(i, leaves):
            for r in trees_with_nodes(n - 1 - i, leaves):
                out.append(('+', l, r))
                out.append(('.', l, r))
    return tuple(out)


def enum_trees(max_nodes, leaves=LEAVES):
    for n in range(1, max_nodes + 1):
        for t in trees_with_nodes(n, leaves):
            yield t


def random_tree(rng, depth, syms='ab', p_leaf=0.25, bias=None):
    """random tree; bias in {None,'star','unit'} favours (r*)*, (1+r)*, (0r)*, 0/1 inside products and sums"""
    if depth <= 1 or rng.random() < p_leaf:
        x = rng.random()
        if x < (0.25 if bias == 'unit' else 0.1):
            return ('0',)
        if x < (0.5 if bias == 'unit' else 0.2):
            return ('1',)
        return ('s', rng.choice(syms))
    x = rng.random()
    if x < (0.5 if bias == 'star' else 0.3):
        inner = random_tree(rng, depth - 1, syms, p_leaf, bias)
        y = rng.random()
        if bias == 'star' and y < 0.3:
            return ('*', ('*', inner))
        if bias == 'star' and y < 0.5:
            return ('*', ('+', ('1',), inner))
        if bias == 'star' and y < 0.6:
            return ('*', ('.', ('0',), inner))
        return ('*', inner)
    op = '+' if x < 0.65 else '.'
    return (op, random_tree(rng, depth - 1, syms, p_leaf, bias), random_tree(rng, depth - 1, syms, p_leaf, bias))


def comb(depth, op, leaf=('s', 'a'), left=True):
    """degenerate deep trees (left / right combs)"""
    t = leaf
    for i in range(depth):
        l = ('s', 'ab'[i % 2])
        t = (op, t, l) if left else (op, l, t)
    return t
