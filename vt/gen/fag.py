"""Workload generators for finite automata (reference tuples, see vt/ref/fa.py).
Everything is built from sorted data and an explicit random.Random, so the generated case
stream is identical under every PYTHONHASHSEED."""
import itertools
from vt.ref import fa

SYMS = ('a', 'b', 'c', 'd', 'e', 'f', 'g', 'h')


def qn(i):
    return 'q%d' % i


def enum_dfas(max_states=3, max_syms=2, min_syms=1):
    """all total DFAs with states q0..q(n-1), q0 initial"""
    for n in range(1, max_states + 1):
        Q = [qn(i) for i in range(n)]
        for k in range(min_syms, max_syms + 1):
            S = SYMS[:k]
            keys = [(q, a) for q in Q for a in S]
            for tgt in itertools.product(Q, repeat=len(keys)):
                T = tuple((q, a, t) for (q, a), t in zip(keys, tgt))
                for fm in range(2 ** n):
                    F = tuple(Q[i] for i in range(n) if fm >> i & 1)
                    yield (tuple(Q), S, T, Q[0], F)


def count_enum_dfas(max_states=3, max_syms=2, min_syms=1):
    return sum((n ** (n * k)) * 2 ** n for n in range(1, max_states + 1) for k in range(min_syms, max_syms + 1))


def enum_nfas(max_states=2, max_syms=2, min_syms=0):
    """all NFAs with states q0..q(n-1), symbols + epsilon, arbitrary target sets"""
    for n in range(1, max_states + 1):
        Q = [qn(i) for i in range(n)]
        subsets = [tuple(Q[i] for i in range(n) if m >> i & 1) for m in range(2 ** n)]
        for k in range(min_syms, max_syms + 1):
            S = SYMS[:k]
            keys = [(q, a) for q in Q for a in list(S) + [None]]
            for tg in itertools.product(subsets, repeat=len(keys)):
                T = tuple((q, a, t) for (q, a), ts in zip(keys, tg) for t in ts)
                for fm in range(2 ** n):
                    F = tuple(Q[i] for i in range(n) if fm >> i & 1)
                    yield (tuple(Q), S, T, Q[0], F)


def random_dfa(rng, n, k, names=None, p_final=0.4, partial=0.0):
    Q = names or [qn(i) for i in range(n)]
    S = SYMS[:k]
    T = []
    for q in Q:
        for a in S:
            if partial and rng.random() < partial:
                continue
            T.append((q, a, rng.choice(Q)))
    F = [q for q in Q if rng.random() < p_final]
    return fa.make(Q, S, T, Q[0], F)


def random_connected_dfa(rng, n, k, names=None, p_final=0.4):
    """every state reachable from the initial state"""
    Q = names or [qn(i) for i in range(n)]
    S = SYMS[:k]
    for _ in range(50):
        d = {}
        # random spanning structure first
        order = list(Q)
        free = [(q, a) for q in Q for a in S]
        reached = [Q[0]]
        ok = True
        for q in order[1:]:
            cand = [(p, a) for (p, a) in free if p in reached]
            if not cand:
                ok = False
                break
            pa = rng.choice(cand)
            free.remove(pa)
            d[pa] = q
            reached.append(q)
        if not ok:
            continue
        for pa in free:
            d[pa] = rng.choice(Q)
        F = [q for q in Q if rng.random() < p_final]
        return fa.make(Q, S, [(p, a, q) for (p, a), q in d.items()], Q[0], F)
    return random_dfa(rng, n, k, names, p_final)


def random_nfa(rng, n, k, eps_density=0.2, density=None, names=None, p_final=0.35):
    Q = names or [qn(i) for i in range(n)]
    S = SYMS[:k]
    density = density if density is not None else rng.choice([0.15, 0.3, 0.5])
    T = []
    for p in Q:
        for a in S:
            for q in Q:
                if rng.random() < density:
                    T.append((p, a, q))
        for q in Q:
            if rng.random() < eps_density / max(1, n) * 2:
                T.append((p, None, q))
    F = [q for q in Q if rng.random() < p_final]
    return fa.make(Q, S, T, Q[0], F)


def hostile_nfas(rng):
    """named families: yields (class_name, RN)"""
    # epsilon self loop, epsilon cycles of length 2..4 through / around accepting states
    for L in (1, 2, 3, 4):
        Q = [qn(i) for i in range(L + 2)]
        cyc = [(Q[i], None, Q[(i + 1) % L]) for i in range(L)]
        for fin in ([Q[0]], [Q[L]], [Q[L + 1]], [], list(Q)):
            T = cyc + [(Q[L - 1], 'a', Q[L]), (Q[L], None, Q[0]), (Q[L], 'b', Q[L + 1]), (Q[L + 1], None, Q[L + 1])]
            yield ('eps_cycle_%d' % L, fa.make(Q, 'ab', T, Q[0], fin))
    # F empty / F = Q / unreachable / dead ends / Sigma empty / one state
    for n in (1, 2, 4):
        R = random_nfa(rng, n, 2, 0.4)
        yield ('F_empty', (R[0], R[1], R[2], R[3], ()))
        yield ('F_all', (R[0], R[1], R[2], R[3], R[0]))
    R = random_nfa(rng, 3, 2, 0.3)
    Q = R[0] + ('u1', 'u2')
    yield ('unreachable', fa.make(Q, R[1], list(R[2]) + [('u1', 'a', 'u2'), ('u2', None, 'u1'), ('u1', 'b', R[3])], R[3], list(R[4]) + ['u2']))
    yield ('dead_end', fa.make(['q0', 'q1', 'q2'], 'ab', [('q0', 'a', 'q1'), ('q0', None, 'q2')], 'q0', ['q1']))
    yield ('sigma_empty', fa.make(['q0', 'q1'], '', [('q0', None, 'q1')], 'q0', ['q1']))
    yield ('sigma_empty', fa.make(['q0', 'q1'], '', [('q1', None, 'q0')], 'q0', ['q1']))
    yield ('sigma_empty', fa.make(['q0'], '', [], 'q0', ['q0']))
    yield ('one_state', fa.make(['q0'], 'a', [('q0', 'a', 'q0'), ('q0', None, 'q0')], 'q0', ['q0']))
    yield ('one_state', fa.make(['q0'], 'ab', [], 'q0', []))
    # no transitions at all
    yield ('no_moves', fa.make(['q0', 'q1'], 'ab', [], 'q0', ['q1']))
    # dense epsilon
    for n in (3, 5):
        yield ('eps_dense', random_nfa(rng, n, 2, eps_density=1.2))


def hostile_dfas(rng):
    yield ('one_state', fa.make(['q0'], 'ab', [('q0', 'a', 'q0'), ('q0', 'b', 'q0')], 'q0', ['q0']))
    yield ('one_state', fa.make(['q0'], 'ab', [('q0', 'a', 'q0'), ('q0', 'b', 'q0')], 'q0', []))
    yield ('sigma_empty', fa.make(['q0'], '', [], 'q0', ['q0']))
    yield ('sigma_empty', fa.make(['q0', 'q1'], '', [], 'q0', ['q1']))
    for n in (2, 4, 6):
        D = random_dfa(rng, n, 2)
        yield ('F_empty', (D[0], D[1], D[2], D[3], ()))
        yield ('F_all', (D[0], D[1], D[2], D[3], D[0]))
    # all states equivalent but with some structure
    Q = [qn(i) for i in range(4)]
    T = [(Q[i], a, Q[(i + (1 if a == 'a' else 2)) % 4]) for i in range(4) for a in 'ab']
    yield ('all_equivalent', fa.make(Q, 'ab', T, Q[0], Q))
    # chain that is already minimal (a^n)
    for n in (3, 5):
        Q = [qn(i) for i in range(n + 1)]
        T = [(Q[i], 'a', Q[min(i + 1, n)]) for i in range(n + 1)]
        yield ('already_minimal', fa.make(Q, 'a', T, Q[0], [Q[n - 1]]))
    # unreachable states (equivalent to reachable ones / forming new classes)
    D = random_connected_dfa(rng, 3, 2)
    Q = list(D[0]) + ['u1', 'u2']
    T = list(D[2]) + [('u1', 'a', 'u2'), ('u1', 'b', D[3]), ('u2', 'a', 'u1'), ('u2', 'b', 'u2')]
    yield ('unreachable', fa.make(Q, 'ab', T, D[3], list(D[4]) + ['u1']))
    yield ('unreachable', fa.make(Q, 'ab', T, D[3], list(D[4])))
    # the classic from the design notes: q0-a->q1-a->q2-a->q1, F={q1,q2}
    yield ('two_equivalent', fa.make(['q0', 'q1', 'q2'], 'a', [('q0', 'a', 'q1'), ('q1', 'a', 'q2'), ('q2', 'a', 'q1')], 'q0', ['q1', 'q2']))


NAME_POOLS = [
    ['s', 't', 'u', 'v', 'w', 'x', 'y', 'z'],
    ['A', 'B', 'C', 'D', 'E', 'F', 'G', 'H'],
    ['p0', 'p1', 'p2', 'p3', 'p4', 'p5', 'p6', 'p7'],
    ['start', 'accept', 'trap1', 'q_accept', 'M1', 'P1', 'q1', 'q0'],
    ['n10', 'n2', 'n33', 'n4', 'n05', 'n6', 'n77', 'n8'],
    ['aa', 'ab', 'ba', 'bb', 'a', 'b', 'aaa', 'bbb'],
    ['q1', 'q10', 'q11', 'q100', 'q2', 'q20', 'q101', 'q12'],
    ['1', '10', '11', '2', '21', '100', '12', '0'],
    ['p', 'p1', 'pp', 'r', 'rp', 'p1r', 'r1', 'pr'],
    ['0', '00', '1', '01', 'q1', 'q01', 'q001', 'q10'],
]


KEYWORDS = ('states', 'final', 'initial', 'input_symbols', 'epsilon', 'stack_symbols', 'tape_symbols', 'blank', 'accept', 'reject')


EXOTIC_POOLS = [
    ['{a}', '{b}', '{a.b}', '(a)', '(b)', '[a]', '<a>', 'a.b'],
    ['q-1', 'q-2', 'q+1', 'q 1', 'q#1', "q'", 'q"', 'q|r'],
    ['', ' ', 'ε', '_', '#', '$', '∅', '0'],
]


def random_names(rng, n, avoid=(), exotic=False):
    """n distinct \\w+ state names (never a keyword of the text formats); exotic=True may also give names with
    punctuation, spaces or the empty string (only for objects that are built directly, never for text formats)"""
    avoid = tuple(avoid) + KEYWORDS
    if exotic and rng.random() < 0.3:
        pool = list(rng.choice(EXOTIC_POOLS))
        rng.shuffle(pool)
        names = [x for x in pool if x not in avoid][:n]
        if len(names) == n:
            return names
    mode = rng.randrange(4)
    if mode == 0:
        pool = list(rng.choice(NAME_POOLS))
        rng.shuffle(pool)
        names = [x for x in pool if x not in avoid][:n]
        if len(names) == n:
            return names
    names = []
    alphabet = 'abcdefghijklmnopqrstuvwxyzABCDEFGHIJKLMNOPQRSTUVWXYZ0123456789_'
    while len(names) < n:
        s = ''.join(rng.choice(alphabet) for _ in range(rng.randint(1, 5)))
        if s not in names and s not in avoid:
            names.append(s)
    return names


def long_words(rng, Sigma, count=24, lengths=(8, 9, 10, 11, 16, 17, 31, 32, 33, 64)):
    """sampled long words (all words up to a bound stop at length 4..8): random letters, one letter repeated, periodic"""
    S = sorted(Sigma)
    out = []
    if not S:
        return out
    for i in range(count):
        L = lengths[i % len(lengths)]
        m = i % 3
        if m == 0:
            w = ''.join(rng.choice(S) for _ in range(L))
        elif m == 1:
            w = rng.choice(S) * L
        else:
            p = ''.join(rng.choice(S) for _ in range(rng.randint(2, 3)))
            w = (p * L)[:L]
        out.append(w)
    return out


def layered_pairs_dfa(k, m=4, reachable=True):
    """three layers: m base states told apart by one symbol; k (<= m*m) accepting states L_n with successors (x_(n // m), x_(n % m));
    k*k states p_i_j with successors (L_i, L_j).  All states are pairwise distinguishable, and in ONE refinement round the block of
    the p-states splits into k*k pieces whose signatures are pairs of block numbers up to k (two-digit numbers for k >= 11)"""
    x = ['x%d' % i for i in range(m)]
    L = ['L%d' % i for i in range(k)]
    T = [(x[0], 'a', L[0]), (x[0], 'b', L[0]), (x[1], 'a', L[0]), (x[1], 'b', x[3 % m]), (x[2 % m], 'a', x[3 % m]), (x[2 % m], 'b', L[0]), (x[3 % m], 'a', x[3 % m]), (x[3 % m], 'b', x[3 % m])]
    T = list(dict(((p, a), (p, a, q)) for (p, a, q) in T).values())
    for n in range(k):
        T += [(L[n], 'a', x[(n // m) % m]), (L[n], 'b', x[n % m])]
    P = []
    for i in range(k):
        for j in range(k):
            p = 'p_%d_%d' % (i, j)
            P.append(p)
            T += [(p, 'a', L[i]), (p, 'b', L[j])]
    if not reachable:
        return fa.make(x + L + P, 'ab', T, 'p_0_0', L)
    # a binary tree above the p-states makes EVERY state reachable (then the minimal automaton is unique up to renaming)
    level = list(P)
    tree = []
    n = 0
    while len(level) > 1:
        nxt = []
        for i in range(0, len(level), 2):
            t = 't%d' % n
            n += 1
            tree.append(t)
            T += [(t, 'a', level[i]), (t, 'b', level[i + 1] if i + 1 < len(level) else level[i])]
            nxt.append(t)
        level = nxt
    return fa.make(x + L + P + tree, 'ab', T, level[0], L)


def hint_names(rng, n, hint='q'):
    """n state names of the form <hint><number> as the constructions' own fresh-name helpers produce them: consecutive
    runs that span digit lengths (q8 q9 q10 q11: the lexicographic maximum is not the numeric one), numberings with
    gaps, the bare hint"""
    mode = rng.randrange(3)
    if mode == 0:
        lo = rng.choice([0, 1, 7, 8, 9, 10, 97, 98, 99])
        names = ['%s%d' % (hint, i) for i in range(lo, lo + n)]
    elif mode == 1:
        names = ['%s%d' % (hint, i) for i in rng.sample(range(0, 13), n)] if n <= 13 else ['%s%d' % (hint, i) for i in range(n)]
    else:
        names = [hint] + ['%s%d' % (hint, i) for i in rng.sample([1, 2, 3, 9, 10, 11, 100], n - 1)] if n - 1 <= 7 else ['%s%d' % (hint, i) for i in range(n)]
    rng.shuffle(names)
    return names[:n]


def rename(RN, mapping):
    f = lambda q: mapping[q]
    return fa.make([f(q) for q in RN[0]], RN[1], [(f(p), a, f(q)) for (p, a, q) in RN[2]], f(RN[3]), [f(q) for q in RN[4]])


def random_renaming(rng, RN, avoid=()):
    names = random_names(rng, len(RN[0]), avoid)
    return rename(RN, dict(zip(RN[0], names)))


def with_alphabet(R, syms):
    """the same automaton over other symbols (e.g. '01': symbols that print like the regexp constants)"""
    mp = dict(zip(R[1], syms))
    return fa.make(R[0], [mp[a] for a in R[1]], [(p, (None if a is None else mp[a]), q) for (p, a, q) in R[2]], R[3], R[4])


def eps_chain(k, sym='a', accept_end=True, back_edge=False):
    """q0 -eps-> q1 -eps-> ... -eps-> qk ; qk -a-> qk ; optional epsilon back edge qk -> q(k//2)"""
    Q = ['c%02d' % i for i in range(k + 1)]
    T = [(Q[i], None, Q[i + 1]) for i in range(k)] + [(Q[k], sym, Q[k])]
    if back_edge:
        T.append((Q[k], None, Q[k // 2]))
    T.append((Q[k // 2], 'b', Q[0]))
    return fa.make(Q, [sym, 'b'], T, Q[0], [Q[k]] if accept_end else [Q[k // 2]])


def thompson_nfas(rng, count, max_nodes=12):
    """epsilon-heavy NFAs as an own Thompson construction produces them (long epsilon runs, many states)"""
    from vt.ref import rx
    from vt.gen import rxg
    out = []
    while len(out) < count:
        t = rxg.random_tree(rng, rng.randint(2, 6), 'ab', bias=rng.choice([None, 'star', 'unit']))
        if rx.size_iter(t) > max_nodes:
            continue
        out.append(rx.thompson(t, 'ab'))
    return out


def maybe_digits(rng, R, p=0.25):
    """with probability p the same automaton over digit symbols (they print like the regexp constants and
    sort / compare differently from letters)"""
    if R[1] and len(R[1]) <= 3 and rng.random() < p:
        return with_alphabet(R, rng.choice([('0', '1', '2'), ('1', '0', '2'), ('0', '1', 'a'), ('#', '$', '.'), ('_', '-', '+'), ('a', 'A', 'ä')])[:len(R[1])])
    return R
