"""Reference one-tape Turing machine interpreter (Sipser).  Imports nothing from gambatools.

RT = (Q, Sigma, Gamma, D, q0, qa, qr, blank)   D: tuple of (p, a, q, b, d)
"""


def make(Q, Sigma, Gamma, D, q0, qa, qr, blank):
    return (tuple(sorted(Q)), tuple(sorted(Sigma)), tuple(sorted(Gamma)), tuple(sorted(D)), q0, qa, qr, blank)


def well_formed(RT):
    Q, Sigma, Gamma, D, q0, qa, qr, blank = RT
    Qs, Gs = set(Q), set(Gamma)
    if q0 not in Qs or qa not in Qs or qr not in Qs or qa == qr:
        return False
    if blank in set(Sigma) or blank not in Gs or not set(Sigma) <= Gs:
        return False
    seen = set()
    for (p, a, q, b, d) in D:
        if p not in Qs or q not in Qs or a not in Gs or b not in Gs or d not in ('L', 'R'):
            return False
        if (p, a) in seen:
            return False
        seen.add((p, a))
    return True


def run(RT, w, k):
    """returns (verdict, configs): verdict True/False/None after at most k steps; configs is
    the list of (state, tape list, head) starting with the initial configuration.  The tape
    is the shortest prefix containing every visited cell (a blank is appended when the head
    moves onto a fresh cell)."""
    Q, Sigma, Gamma, D, q0, qa, qr, blank = RT
    delta = {(p, a): (q, b, d) for (p, a, q, b, d) in D}
    tape = list(w)
    if not tape:
        tape.append(blank)
    head = 0
    q = q0
    configs = [(q, list(tape), head)]
    if q == qa:
        return True, configs
    if q == qr:
        return False, configs
    for _ in range(k):
        a = tape[head]
        if (q, a) in delta:
            q, b, d = delta[(q, a)]
        else:
            q, b, d = qr, a, 'R'
        tape[head] = b
        if d == 'L':
            head = head - 1 if head > 0 else 0
        else:
            head += 1
        if head == len(tape):
            tape.append(blank)
        configs.append((q, list(tape), head))
        if q == qa:
            return True, configs
        if q == qr:
            return False, configs
    return None, configs
