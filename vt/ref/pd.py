"""Reference semantics for pushdown automata (Sipser style, acceptance by final state,
initially empty stack, a pop needs the symbol on top).  Imports nothing from gambatools.

A reference PDA is a hashable tuple  RP = (Q, Sigma, Gamma, T, q0, F)
  T  tuple of moves (p, a, u, q, v); a, u, v are None for epsilon
"""
from collections import deque
from functools import lru_cache
import itertools


def make(Q, Sigma, Gamma, T, q0, F):
    return (tuple(sorted(Q)), tuple(sorted(Sigma)), tuple(sorted(Gamma)), tuple(sorted(set(T), key=repr)), q0, tuple(sorted(F)))


def well_formed(RP):
    Q, Sigma, Gamma, T, q0, F = RP
    Qs, Ss, Gs = set(Q), set(Sigma), set(Gamma)
    if q0 not in Qs or not set(F) <= Qs:
        return False
    for (p, a, u, q, v) in T:
        if p not in Qs or q not in Qs:
            return False
        if a is not None and a not in Ss:
            return False
        if u is not None and u not in Gs:
            return False
        if v is not None and v not in Gs:
            return False
    return True


def _split(RP):
    """split replace moves (pop u, push v) into a pop followed by a push through a
    private intermediate state; returns lists of noop / push / pop moves on 'states'"""
    noop, push, pop = [], [], []
    k = 0
    for (p, a, u, q, v) in RP[3]:
        if u is None and v is None:
            noop.append((p, a, q))
        elif u is None:
            push.append((p, a, v, q))
        elif v is None:
            pop.append((p, a, u, q))
        else:
            k += 1
            mid = ('#mid', k)
            pop.append((p, a, u, mid))
            push.append((mid, None, v, q))
    return noop, push, pop


def accepts(RP, w, empty_stack=False):
    """reference A (exact, unbounded stack): saturation of balanced computations on the
    product of the PDA with the word positions.  empty_stack=True: acceptance by final state AND empty stack."""
    noop, push, pop = _split(RP)
    n = len(w)

    def steps(a, i):
        """positions reachable from position i by reading label a"""
        if a is None:
            return (i,)
        if i < n and w[i] == a:
            return (i + 1,)
        return ()

    # node-level edges
    noop_e = {}   # x -> set(y)
    push_e = {}   # x -> set((X, y))
    pop_e = {}    # (X, z) -> set(t)      z --pop X--> t
    nodes = set()
    for i in range(n + 1):
        for (p, a, q) in noop:
            for j in steps(a, i):
                noop_e.setdefault((p, i), set()).add((q, j))
        for (p, a, X, q) in push:
            for j in steps(a, i):
                push_e.setdefault((p, i), set()).add((X, (q, j)))
        for (p, a, X, q) in pop:
            for j in steps(a, i):
                pop_e.setdefault((X, (p, i)), set()).add((q, j))

    # Bal[x] = set of y with a balanced computation x ->* y
    Bal = {}
    BalInv = {}
    work = deque()

    def add(x, y):
        s = Bal.setdefault(x, set())
        if y not in s:
            s.add(y)
            BalInv.setdefault(y, set()).add(x)
            work.append((x, y))

    allnodes = set()
    for x in list(noop_e) + list(push_e):
        allnodes.add(x)
    for x, ys in noop_e.items():
        allnodes |= ys
    for x, ps in push_e.items():
        for (_, y) in ps:
            allnodes.add(y)
    for (X, z), ts in pop_e.items():
        allnodes.add(z)
        allnodes |= ts
    allnodes.add((RP[4], 0))
    for x in allnodes:
        add(x, x)
    # push-sources indexed by target: y -> list of (x, X)
    push_into = {}
    for x, ps in push_e.items():
        for (X, y) in ps:
            push_into.setdefault(y, []).append((x, X))

    while work:
        (x, y) = work.popleft()
        # extend by a noop step on the right
        for z in noop_e.get(y, ()):
            add(x, z)
        # transitivity on the right: x ->bal y ->bal z
        for z in list(Bal.get(y, ())):
            add(x, z)
        # transitivity on the left: u ->bal x ->bal y
        for u in list(BalInv.get(x, ())):
            add(u, y)
        # wrap: s --push X--> x ->bal y --pop X--> t   gives  s ->bal t
        for (s, X) in push_into.get(x, ()):
            for t in pop_e.get((X, y), ()):
                add(s, t)

    if empty_stack:
        # acceptance by final state AND empty stack: a balanced computation from the start configuration
        return any((f, n) in Bal.get((RP[4], 0), ()) for f in RP[5])
    # Reach: from (q0,0) by balanced segments and unmatched pushes
    start = (RP[4], 0)
    seen = set()
    st = [start]
    F = set(RP[5])
    while st:
        x = st.pop()
        if x in seen:
            continue
        seen.add(x)
        for y in Bal.get(x, ()):
            if y not in seen:
                st.append(y)
        for (X, y) in push_e.get(x, ()):
            if y not in seen:
                st.append(y)
    return any((f, n) in seen for f in F)


def accepts_capped(RP, w, cap, max_configs=200000):
    """reference B: explicit BFS over configurations (state, position, stack) with stack
    height <= cap.  Returns True / False / None (None = configuration budget exhausted).
    True is definitive; False only means 'no accepting computation within the cap'."""
    Q, Sigma, Gamma, T, q0, F = RP
    Fs = set(F)
    n = len(w)
    by_state = {}
    for m in T:
        by_state.setdefault(m[0], []).append(m)
    start = (q0, 0, ())
    seen = {start}
    dq = deque([start])
    while dq:
        (p, i, st) = dq.popleft()
        if i == n and p in Fs:
            return True
        for (_, a, u, q, v) in by_state.get(p, ()):
            if a is None:
                j = i
            elif i < n and w[i] == a:
                j = i + 1
            else:
                continue
            if u is not None:
                if not st or st[-1] != u:
                    continue
                st1 = st[:-1]
            else:
                st1 = st
            if v is not None:
                st1 = st1 + (v,)
            if len(st1) > cap:
                continue
            c = (q, j, st1)
            if c not in seen:
                seen.add(c)
                if len(seen) > max_configs:
                    return None
                dq.append(c)
    return False


def language_upto(RP, n):
    out = set()
    for k in range(n + 1):
        for t in itertools.product(RP[1], repeat=k):
            w = ''.join(t)
            if accepts(RP, w):
                out.add(w)
    return frozenset(out)


def language_upto_empty_stack(RP, n):
    """words up to length n with a computation from (q0, empty stack) to an accepting state with EMPTY stack"""
    import itertools
    out = set()
    for k in range(n + 1):
        for t in itertools.product(sorted(RP[1]), repeat=k):
            w = ''.join(t)
            if accepts(RP, w, empty_stack=True):
                out.add(w)
    return frozenset(out)


def true_eps_closure(RP, confs, limit):
    """exact epsilon closure of a set of configurations (state, stack tuple), explored
    breadth first, stopping as soon as more than `limit` configurations are known.
    Returns (set, complete?)"""
    by_state = {}
    for m in RP[3]:
        if m[1] is None:
            by_state.setdefault(m[0], []).append(m)
    seen = set(confs)
    dq = deque(confs)
    while dq:
        if len(seen) > limit:
            return seen, False
        (p, st) = dq.popleft()
        for (_, a, u, q, v) in by_state.get(p, ()):
            if u is not None:
                if not st or st[-1] != u:
                    continue
                st1 = st[:-1]
            else:
                st1 = st
            if v is not None:
                st1 = st1 + (v,)
            c = (q, st1)
            if c not in seen:
                seen.add(c)
                dq.append(c)
    return seen, len(seen) <= limit


def is_push_pop(RP):
    return all((u is None) != (v is None) for (_, _, u, _, v) in RP[3])


def check_run(RP, w, rows):
    """independent step validator for a run [(state, unread, stack list)]; returns None if
    the rows form a genuine accepting computation on w, else a reason string."""
    if not rows:
        return 'empty run'
    moves = set(RP[3])
    q, rest, st = rows[0]
    if q != RP[4] or rest != w or list(st) != []:
        return 'first row is not the initial configuration'
    for k in range(len(rows) - 1):
        (p, r1, s1) = rows[k]
        (q, r2, s2) = rows[k + 1]
        s1, s2 = list(s1), list(s2)
        ok = False
        for a in ([None] if r1 == r2 else []) + ([r1[0]] if r1 and r1[1:] == r2 else []):
            for (pp, aa, u, qq, v) in moves:
                if pp != p or qq != q or aa != a:
                    continue
                base = s1
                if u is not None:
                    if not base or base[-1] != u:
                        continue
                    base = base[:-1]
                if v is not None:
                    base = base + [v]
                if base == s2:
                    ok = True
                    break
            if ok:
                break
        if not ok:
            return 'row %d -> %d is not a move of the automaton (or does not consume the first unread symbol)' % (k, k + 1)
    q, rest, st = rows[-1]
    if rest != '':
        return 'last row has unread input'
    if q not in set(RP[5]):
        return 'last row is not accepting'
    return None
