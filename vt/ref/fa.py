"""Reference models for finite automata.  Imports nothing from gambatools.

A reference NFA is a hashable tuple
    RN = (Q, Sigma, T, q0, F)
      Q      sorted tuple of state names
      Sigma  sorted tuple of symbols
      T      sorted tuple of (p, a, q) triples; a is None for an epsilon move
      q0     state
      F      sorted tuple of accepting states
A reference DFA is an RN whose T is a partial function on (p, a) and has no
epsilon moves; missing moves lead to an implicit rejecting sink.
"""
from collections import deque
from functools import lru_cache
import itertools

EPS = None


def make(Q, Sigma, T, q0, F):
    return (tuple(sorted(Q)), tuple(sorted(Sigma)), tuple(sorted(set(T), key=lambda t: (t[0], '' if t[1] is None else '\x01' + t[1], t[2]))), q0, tuple(sorted(F)))


def succ_map(RN):
    m = {}
    for (p, a, q) in RN[2]:
        m.setdefault((p, a), set()).add(q)
    return m


# ---------------------------------------------------------------- closure
def eps_closure_bfs(RN, S):
    """reference A: BFS over epsilon edges"""
    m = succ_map(RN)
    seen = set(S)
    dq = deque(S)
    while dq:
        p = dq.popleft()
        for q in m.get((p, EPS), ()):
            if q not in seen:
                seen.add(q)
                dq.append(q)
    return frozenset(seen)


def eps_closure_warshall(RN):
    """reference B: reflexive-transitive closure of the epsilon relation for all states"""
    Q = RN[0]
    idx = {q: i for i, q in enumerate(Q)}
    n = len(Q)
    if n > 150:
        # cubic; for huge automata the bit-set variant below (rows as Python integers, same recurrence)
        rows = [1 << i for i in range(n)]
        for (p, a, q) in RN[2]:
            if a is EPS and p in idx and q in idx:
                rows[idx[p]] |= 1 << idx[q]
        for k in range(n):
            rk = rows[k]
            bit = 1 << k
            for i in range(n):
                if rows[i] & bit:
                    rows[i] |= rk
        return {Q[i]: frozenset(Q[j] for j in range(n) if (rows[i] >> j) & 1) for i in range(n)}
    R = [[i == j for j in range(n)] for i in range(n)]
    for (p, a, q) in RN[2]:
        if a is EPS and p in idx and q in idx:
            R[idx[p]][idx[q]] = True
    for k in range(n):
        Rk = R[k]
        for i in range(n):
            if R[i][k]:
                Ri = R[i]
                for j in range(n):
                    if Rk[j]:
                        Ri[j] = True
    return {Q[i]: frozenset(Q[j] for j in range(n) if R[i][j]) for i in range(n)}


# ---------------------------------------------------------------- acceptance
def accepts_graph(RN, w):
    """reference A: an accepting run exists <=> some node (f, len(w)) with f in F is
    reachable from (q0, 0) in the graph whose edges are epsilon moves (same position)
    and symbol moves (position + 1)."""
    m = succ_map(RN)
    F = set(RN[4])
    n = len(w)
    start = (RN[3], 0)
    seen = {start}
    stack = [start]
    while stack:
        (p, i) = stack.pop()
        if i == n and p in F:
            return True
        for q in m.get((p, EPS), ()):
            if (q, i) not in seen:
                seen.add((q, i))
                stack.append((q, i))
        if i < n:
            for q in m.get((p, w[i]), ()):
                if (q, i + 1) not in seen:
                    seen.add((q, i + 1))
                    stack.append((q, i + 1))
    return False


@lru_cache(maxsize=4096)
def determinize(RN):
    """reference B: own subset construction.  Returns (RD, label) where RD is a total
    reference DFA whose states are integers and label maps them to frozensets."""
    m = succ_map(RN)
    Sigma = RN[1]
    Fs = set(RN[4])

    def clo(S):
        seen = set(S)
        st = list(S)
        while st:
            p = st.pop()
            for q in m.get((p, EPS), ()):
                if q not in seen:
                    seen.add(q)
                    st.append(q)
        return frozenset(seen)

    S0 = clo({RN[3]})
    num = {S0: 0}
    order = [S0]
    T = []
    i = 0
    while i < len(order):
        S = order[i]
        for a in Sigma:
            X = set()
            for p in S:
                X |= m.get((p, a), set())
            X = clo(X)
            if X not in num:
                num[X] = len(order)
                order.append(X)
            T.append((i, a, num[X]))
        i += 1
    F = [i for i, S in enumerate(order) if S & Fs]
    RD = (tuple(range(len(order))), Sigma, tuple(T), 0, tuple(F))
    return RD, tuple(order)


def dfa_run(RD, w, _cache={}):
    key = id(RD)
    ent = _cache.get(key)
    if ent is None or ent[0] is not RD:
        if len(_cache) > 64:
            _cache.clear()
        ent = (RD, {(p, a): q for (p, a, q) in RD[2]}, set(RD[4]))
        _cache[key] = ent
    d, F = ent[1], ent[2]
    p = RD[3]
    for a in w:
        p = d.get((p, a), None)
        if p is None:
            return False
    return p in F


def accepts_subset(RN, w):
    RD, _ = determinize(RN)
    return dfa_run(RD, w)


def words_upto(Sigma, n):
    for k in range(n + 1):
        for t in itertools.product(sorted(Sigma), repeat=k):
            yield ''.join(t)


@lru_cache(maxsize=2048)
def language_upto(RN, n):
    """all words over Sigma of length <= n accepted (via reference B, frontier walk)."""
    RD, _ = determinize(RN)
    d = {(p, a): q for (p, a, q) in RD[2]}
    F = set(RD[4])
    res = set()
    layer = {'': RD[3]}
    if RD[3] in F:
        res.add('')
    for _ in range(n):
        nxt = {}
        for w, p in layer.items():
            for a in RD[1]:
                q = d[(p, a)]
                nxt[w + a] = q
                if q in F:
                    res.add(w + a)
        layer = nxt
    return frozenset(res)


def language_upto_naive(RN, n):
    return frozenset(w for w in words_upto(RN[1], n) if accepts_graph(RN, w))


# ---------------------------------------------------------------- equivalence
def _total(RD):
    d = {(p, a): q for (p, a, q) in RD[2]}
    return d, set(RD[4])


def dfa_distinguish(RD1, RD2, Sigma=None):
    """exact: returns None if L(RD1) == L(RD2) else a shortest word in the symmetric
    difference.  Missing transitions go to an implicit sink (None)."""
    Sigma = tuple(sorted(set(RD1[1]) | set(RD2[1]))) if Sigma is None else Sigma
    d1, F1 = _total(RD1)
    d2, F2 = _total(RD2)
    start = (RD1[3], RD2[3])
    seen = {start: ''}
    dq = deque([start])
    while dq:
        (p, q) = dq.popleft()
        w = seen[(p, q)]
        if ((p is not None) and p in F1) != ((q is not None) and q in F2):
            return w
        for a in Sigma:
            p1 = d1.get((p, a)) if p is not None else None
            q1 = d2.get((q, a)) if q is not None else None
            if (p1, q1) not in seen:
                seen[(p1, q1)] = w + a
                dq.append((p1, q1))
    return None


def nfa_distinguish(RN1, RN2):
    return dfa_distinguish(determinize(RN1)[0], determinize(RN2)[0])


def distinguish_bounded(RN1, RN2, n):
    """reference B for equality: bounded enumeration"""
    S = tuple(sorted(set(RN1[1]) | set(RN2[1])))
    for w in words_upto(S, n):
        if accepts_graph(RN1, w) != accepts_graph(RN2, w):
            return w
    return None


# ---------------------------------------------------------------- structure
def is_dfa(RN):
    seen = set()
    for (p, a, q) in RN[2]:
        if a is EPS or (p, a) in seen:
            return False
        seen.add((p, a))
    return True


def is_total_dfa(RN):
    if not is_dfa(RN):
        return False
    have = {(p, a) for (p, a, q) in RN[2]}
    return all((p, a) in have for p in RN[0] for a in RN[1])


def well_formed(RN):
    Q = set(RN[0])
    S = set(RN[1])
    if RN[3] not in Q or not set(RN[4]) <= Q:
        return False
    for (p, a, q) in RN[2]:
        if p not in Q or q not in Q or (a is not EPS and a not in S):
            return False
    return True


def reachable(RN):
    m = succ_map(RN)
    seen = {RN[3]}
    st = [RN[3]]
    while st:
        p = st.pop()
        for (pp, a), qs in m.items():
            if pp == p:
                for q in qs:
                    if q not in seen:
                        seen.add(q)
                        st.append(q)
    return seen


def moore_classes(RD, states=None):
    """Moore refinement on a (total or partial, sink-completed) DFA.  Returns a dict
    state -> class id over `states` (default all states)."""
    d, F = _total(RD)
    Q = list(RD[0]) + [None]
    Sigma = RD[1]
    cls = {q: (1 if (q is not None and q in F) else 0) for q in Q}
    while True:
        sig = {q: (cls[q],) + tuple(cls[d.get((q, a)) if q is not None else None] for a in Sigma) for q in Q}
        ids = {}
        new = {}
        for q in Q:
            new[q] = ids.setdefault(sig[q], len(ids))
        if len(ids) == len(set(cls.values())):
            cls = new
            break
        cls = new
    if states is None:
        states = RD[0]
    return {q: cls[q] for q in states}


def mn_count(RD, states):
    return len(set(moore_classes(RD, states).values()))


def equivalent_state_pair(RD):
    """reference B for minimality: search a pair of distinct states with no
    distinguishing word (pairwise product BFS).  Returns the pair or None."""
    d, F = _total(RD)
    Sigma = RD[1]
    Q = list(RD[0])
    for i in range(len(Q)):
        for j in range(i + 1, len(Q)):
            seen = {(Q[i], Q[j])}
            st = [(Q[i], Q[j])]
            dist = False
            while st and not dist:
                (p, q) = st.pop()
                if ((p is not None) and p in F) != ((q is not None) and q in F):
                    dist = True
                    break
                for a in Sigma:
                    p1 = d.get((p, a)) if p is not None else None
                    q1 = d.get((q, a)) if q is not None else None
                    if (p1, q1) not in seen:
                        seen.add((p1, q1))
                        st.append((p1, q1))
            if not dist:
                return (Q[i], Q[j])
    return None


# ---------------------------------------------------------------- isomorphism
def canonical_reachable(RD):
    """BFS numbering of the reachable part from q0 in sorted-symbol order."""
    d, F = _total(RD)
    Sigma = RD[1]
    num = {RD[3]: 0}
    order = [RD[3]]
    table = []
    i = 0
    while i < len(order):
        p = order[i]
        row = []
        for a in Sigma:
            q = d.get((p, a))
            if q is None:
                row.append(-1)
                continue
            if q not in num:
                num[q] = len(order)
                order.append(q)
            row.append(num[q])
        table.append((p in F, tuple(row)))
        i += 1
    return tuple(table)


def isomorphic_canonical(RD1, RD2):
    return RD1[1] == RD2[1] and canonical_reachable(RD1) == canonical_reachable(RD2)


def isomorphic_bruteforce(RD1, RD2):
    """reference B: explicit bijection search between the reachable parts."""
    if RD1[1] != RD2[1]:
        return False
    R1 = sorted(reachable(RD1))
    R2 = sorted(reachable(RD2))
    if len(R1) != len(R2):
        return False
    d1, F1 = _total(RD1)
    d2, F2 = _total(RD2)
    for perm in itertools.permutations(R2):
        f = dict(zip(R1, perm))
        if f[RD1[3]] != RD2[3]:
            continue
        ok = True
        for p in R1:
            if (p in F1) != (f[p] in F2):
                ok = False
                break
            for a in RD1[1]:
                x = d1.get((p, a))
                y = d2.get((f[p], a))
                if (x is None) != (y is None) or (x is not None and f[x] != y):
                    ok = False
                    break
            if not ok:
                break
        if ok:
            return True
    return False


# ---------------------------------------------------------------- reference constructions
def r_product(RD1, RD2, mode):
    d1, F1 = _total(RD1)
    d2, F2 = _total(RD2)
    Q = [(p, q) for p in RD1[0] for q in RD2[0]]
    T = [((p, q), a, (d1[(p, a)], d2[(q, a)])) for (p, q) in Q for a in RD1[1]]
    if mode == 'union':
        F = [(p, q) for (p, q) in Q if p in F1 or q in F2]
    elif mode == 'intersection':
        F = [(p, q) for (p, q) in Q if p in F1 and q in F2]
    else:
        F = [(p, q) for (p, q) in Q if (p in F1) != (q in F2)]
    return (tuple(Q), RD1[1], tuple(T), (RD1[3], RD2[3]), tuple(F))


def r_complement(RD):
    """complement of a TOTAL reference DFA"""
    return (RD[0], RD[1], RD[2], RD[3], tuple(q for q in RD[0] if q not in set(RD[4])))


def r_reverse(RD):
    """NFA for the mirror image"""
    new = ('__rev_start__',)
    T = [(q, a, p) for (p, a, q) in RD[2]] + [(new, EPS, f) for f in RD[4]]
    return (tuple(RD[0]) + (new,), RD[1], tuple(T), new, (RD[3],))


def r_no_prefix(RD):
    """words of L with no proper prefix in L: cut all moves leaving accepting states"""
    F = set(RD[4])
    T = [(p, a, q) for (p, a, q) in RD[2] if p not in F]
    return (RD[0], RD[1], tuple(T), RD[3], RD[4])


def r_no_extend(RD):
    """words of L that are not a proper prefix of another word of L: keep accepting
    states from which no accepting state is reachable by >= 1 step"""
    d, F = _total(RD)
    keep = []
    for f in RD[4]:
        seen = set()
        st = [f]
        hit = False
        while st and not hit:
            p = st.pop()
            for a in RD[1]:
                q = d.get((p, a))
                if q is None:
                    continue
                if q in F:
                    hit = True
                    break
                if q not in seen:
                    seen.add(q)
                    st.append(q)
        if not hit:
            keep.append(f)
    return (RD[0], RD[1], RD[2], RD[3], tuple(keep))


def r_union_nfa(RN1, RN2):
    T = [((1, p), a, (1, q)) for (p, a, q) in RN1[2]] + [((2, p), a, (2, q)) for (p, a, q) in RN2[2]]
    s = (0, 's')
    T += [(s, EPS, (1, RN1[3])), (s, EPS, (2, RN2[3]))]
    Q = [s] + [(1, q) for q in RN1[0]] + [(2, q) for q in RN2[0]]
    F = [(1, q) for q in RN1[4]] + [(2, q) for q in RN2[4]]
    return (tuple(Q), tuple(sorted(set(RN1[1]) | set(RN2[1]))), tuple(T), s, tuple(F))


def r_concat_nfa(RN1, RN2):
    T = [((1, p), a, (1, q)) for (p, a, q) in RN1[2]] + [((2, p), a, (2, q)) for (p, a, q) in RN2[2]]
    T += [((1, f), EPS, (2, RN2[3])) for f in RN1[4]]
    Q = [(1, q) for q in RN1[0]] + [(2, q) for q in RN2[0]]
    return (tuple(Q), tuple(sorted(set(RN1[1]) | set(RN2[1]))), tuple(T), (1, RN1[3]), tuple((2, q) for q in RN2[4]))


def r_star_nfa(RN):
    s = (0, 's')
    T = [((1, p), a, (1, q)) for (p, a, q) in RN[2]]
    T += [(s, EPS, (1, RN[3]))] + [((1, f), EPS, (1, RN[3])) for f in RN[4]]
    Q = [s] + [(1, q) for q in RN[0]]
    return (tuple(Q), RN[1], tuple(T), s, (s,) + tuple((1, q) for q in RN[4]))


# ---------------------------------------------------------------- canonical form of a regular language
def canonical_language(RN):
    """canonical table of the minimal complete DFA of L(RN) (over RN's alphabet): two automata
    over the same alphabet have equal tables iff they accept the same language"""
    RD = determinize(RN)[0]
    cls = moore_classes(RD, RD[0])
    d = {(p, a): q for (p, a, q) in RD[2]}
    F = set(RD[4])
    start = cls[RD[3]]
    rep = {}
    for q in RD[0]:
        rep.setdefault(cls[q], q)
    num = {start: 0}
    order = [start]
    table = []
    i = 0
    while i < len(order):
        c = order[i]
        q = rep[c]
        row = []
        for a in RD[1]:
            c2 = cls[d[(q, a)]]
            if c2 not in num:
                num[c2] = len(order)
                order.append(c2)
            row.append(num[c2])
        table.append((q in F, tuple(row)))
        i += 1
    return (tuple(RD[1]), tuple(table))
