"""Own renderers for the line-oriented text formats (doc/main.tex section Syntax), in many
layouts, and single-fault corruptions.  Imports nothing from gambatools.

render_*(ref, opts, rng) -> text      opts: dict of layout switches
"""


def _group(pairs, mode, rng):
    """pairs: list of ((p, q), label) -> transition lines"""
    by = {}
    for (pq, lab) in pairs:
        by.setdefault(pq, []).append(lab)
    lines = []
    for pq in by:
        labs = by[pq]
        if mode == 'single' or (mode == 'mixed' and rng.random() < 0.5):
            for l in labs:
                lines.append('%s %s %s' % (pq[0], pq[1], l))
        else:
            lines.append('%s %s %s' % (pq[0], pq[1], ' '.join(labs)))
    return lines


def _layout(sections, trans, opts, rng):
    """sections: list of header lines; trans: list of transition lines"""
    lines = list(sections)
    if opts.get('shuffle'):
        allv = lines + trans
        rng.shuffle(allv)
        lines, trans = allv, []
    elif opts.get('headers_last'):
        lines, trans = trans, lines
    out = []
    for l in lines + trans:
        if opts.get('comments') and rng.random() < 0.3:
            out.append('% a comment ' + l)
        if opts.get('blank_lines') and rng.random() < 0.3:
            out.append('   ' if rng.random() < 0.5 else '')
        ind = ' ' * rng.randint(0, 3) if opts.get('indent') else ''
        tail = ' ' * rng.randint(0, 2) if opts.get('indent') else ''
        sep = l
        if opts.get('wide_spaces'):
            sep = ('  ' if rng.random() < 0.5 else ' \t ').join(l.split(' '))
        out.append(ind + sep + tail)
    if opts.get('comments'):
        out.insert(0, '%% language = something')
    return '\n'.join(out) + ('\n' if opts.get('trailing_newline', True) else '')


def used_states_fa(R):
    return {R[3]} | set(R[4]) | {p for (p, a, q) in R[2]} | {q for (p, a, q) in R[2]}


def render_fa(R, kind, eps, opts, rng):
    """R: reference DFA/NFA (vt.ref.fa); returns (text, expected_ref, expected_eps)"""
    Q, S, T, q0, F = R
    declare_states = opts.get('declare_states', True) or used_states_fa(R) != set(Q)
    used_syms = {a for (p, a, q) in T if a is not None}
    declare_syms = opts.get('declare_symbols', True) or used_syms != set(S)
    has_eps = any(a is None for (p, a, q) in T)
    declare_eps = kind == 'nfa' and (opts.get('declare_eps', True) or eps not in ('ε', '_'))
    exp_eps = eps
    if kind == 'nfa' and not declare_eps:
        # documented default: ε if it occurs in a label, otherwise _
        exp_eps = 'ε' if (eps == 'ε' and has_eps) else '_'
    head = []
    if declare_states:
        st = list(Q)
        rng.shuffle(st)
        head.append('states ' + ' '.join(st))
    head.append('initial ' + q0)
    fin = list(F)
    rng.shuffle(fin)
    if fin or opts.get('declare_empty_final', True):
        head.append(('final ' + ' '.join(fin)).rstrip() if fin else 'final')
    if declare_syms:
        sy = list(S)
        rng.shuffle(sy)
        head.append(('input_symbols ' + ' '.join(sy)).rstrip())
    if declare_eps:
        head.append('epsilon ' + eps)
    pairs = [((p, q), eps if a is None else a) for (p, a, q) in T]
    if opts.get('shuffle_transitions'):
        rng.shuffle(pairs)
    trans = _group(pairs, opts.get('grouping', 'grouped'), rng)
    return _layout(head, trans, opts, rng), R, exp_eps


def used_states_pda(RP):
    return {RP[4]} | set(RP[5]) | {m[0] for m in RP[3]} | {m[3] for m in RP[3]}


def render_pda(RP, eps, opts, rng):
    Q, S, G, T, q0, F = RP
    declare_states = opts.get('declare_states', True) or used_states_pda(RP) != set(Q)
    used_in = {m[1] for m in T if m[1] is not None}
    used_st = {m[2] for m in T if m[2] is not None} | {m[4] for m in T if m[4] is not None}
    declare_in = opts.get('declare_symbols', True) or used_in != set(S)
    declare_st = opts.get('declare_stack', True) or used_st != set(G)
    uses_eps = any(m[1] is None or m[2] is None or m[4] is None for m in T)
    declare_eps = opts.get('declare_eps', True) or eps not in ('ε', '_') or (eps == 'ε' and not uses_eps)
    head = []
    if declare_states:
        st = list(Q)
        rng.shuffle(st)
        head.append('states ' + ' '.join(st))
    head.append('initial ' + q0)
    head.append(('final ' + ' '.join(F)).rstrip())
    if declare_in:
        head.append(('input_symbols ' + ' '.join(S)).rstrip())
    if declare_st:
        head.append(('stack_symbols ' + ' '.join(G)).rstrip())
    if declare_eps:
        head.append('epsilon ' + eps)
    e = lambda x: eps if x is None else x
    pairs = [((p, q), '%s,%s%s' % (e(a), e(u), e(v))) for (p, a, u, q, v) in T]
    if opts.get('shuffle_transitions'):
        rng.shuffle(pairs)
    trans = _group(pairs, opts.get('grouping', 'grouped'), rng)
    return _layout(head, trans, opts, rng), RP, eps


def used_states_tm(RT):
    return {RT[4]} | {d[0] for d in RT[3]} | {d[2] for d in RT[3]}


def render_tm(RT, opts, rng):
    """returns (text, expected RT)"""
    Q, S, G, D, q0, qa, qr, blank = RT
    used = used_states_tm(RT) | {qa, qr}
    declare_states = opts.get('declare_states', True) or used != set(Q)
    used_tape = {d[1] for d in D} | {d[3] for d in D}
    declare_tape = opts.get('declare_tape', True) or (used_tape | {blank}) != set(G)
    # input symbols omitted => tape symbols minus blank
    declare_in = opts.get('declare_symbols', True) or set(S) != (set(G) - {blank})
    declare_blank = opts.get('declare_blank', True) or blank not in ('□', '_') or (blank == '□' and blank not in used_tape) or (blank == '_' and '□' in used_tape)
    omit_reject = (not declare_states) and opts.get('omit_reject', False) and qr == 'reject'
    head = []
    if declare_states:
        st = list(Q)
        rng.shuffle(st)
        head.append('states ' + ' '.join(st))
    head.append('initial ' + q0)
    head.append('accept ' + qa)
    if not omit_reject:
        head.append('reject ' + qr)
    if declare_in:
        head.append(('input_symbols ' + ' '.join(S)).rstrip())
    if declare_tape:
        head.append(('tape_symbols ' + ' '.join(G)).rstrip())
    if declare_blank:
        head.append('blank ' + blank)
    pairs = [((p, q), '%s%s,%s' % (a, b, d)) for (p, a, q, b, d) in D]
    if opts.get('shuffle_transitions'):
        rng.shuffle(pairs)
    trans = _group(pairs, opts.get('grouping', 'grouped'), rng)
    return _layout(head, trans, opts, rng), RT


def random_opts(rng):
    return {
        'declare_states': rng.random() < 0.5, 'declare_symbols': rng.random() < 0.5, 'declare_stack': rng.random() < 0.5,
        'declare_tape': rng.random() < 0.5, 'declare_eps': rng.random() < 0.5, 'declare_blank': rng.random() < 0.5,
        'omit_reject': rng.random() < 0.5, 'declare_empty_final': rng.random() < 0.7,
        'shuffle': rng.random() < 0.4, 'headers_last': rng.random() < 0.3, 'comments': rng.random() < 0.4,
        'blank_lines': rng.random() < 0.4, 'indent': rng.random() < 0.4, 'wide_spaces': rng.random() < 0.3,
        'shuffle_transitions': rng.random() < 0.6, 'grouping': rng.choice(['grouped', 'single', 'mixed']),
        'trailing_newline': rng.random() < 0.7,
    }


PLAIN = {'declare_states': True, 'declare_symbols': True, 'declare_stack': True, 'declare_tape': True, 'declare_eps': True,
         'declare_blank': True, 'grouping': 'grouped'}


# ---------------------------------------------------------------- grammars (simple format) and regexps
def render_simple_cfg(RG, eps='ε', rng=None, opts=None):
    """simple text format: one line per variable in order of first appearance, the start variable's
    rules first.  Requires single-character symbols."""
    opts = opts or {}
    by = {}
    order = []
    for (A, rhs) in RG[2]:
        if A not in by:
            order.append(A)
        by.setdefault(A, []).append(''.join(x for (_, x) in rhs) if rhs else eps)
    if RG[3] in order:
        order.remove(RG[3])
        order.insert(0, RG[3])
    lines = []
    for A in order:
        if opts.get('split_lines') and rng is not None and len(by[A]) > 1 and rng.random() < 0.5 and A != order[0]:
            k = rng.randint(1, len(by[A]) - 1)
            lines.append('%s -> %s' % (A, ' | '.join(by[A][:k])))
            lines.append('%s -> %s' % (A, ' | '.join(by[A][k:])))
        else:
            sep = ' | ' if not opts.get('tight') else '|'
            lines.append('%s -> %s' % (A, sep.join(by[A])))
    if opts.get('comments'):
        lines.insert(1, '% a comment')
        lines.insert(0, '%% language = something')
    if opts.get('declare_epsilon'):
        # the simple format lets a grammar file name its own epsilon symbol
        decl = 'epsilon = %s' % eps
        if rng is not None and rng.random() < 0.5:
            lines.append(decl)
        else:
            lines.insert(0, decl)
    return '\n'.join(lines) + '\n'


def render_regexp_simple(t, minimal_parens=True):
    """simple concrete syntax: juxtaposition, +, *, parentheses"""
    prec = {'0': 10, '1': 10, 's': 10, '*': 9, '.': 8, '+': 7}

    def go(t):
        k = t[0]
        if k in '01':
            return k
        if k == 's':
            return t[1]
        if k == '*':
            x = go(t[1])
            return ('(%s)*' % x) if (prec[t[1][0]] < 9 or not minimal_parens) else x + '*'
        a, b = go(t[1]), go(t[2])
        if prec[t[1][0]] < prec[k] or not minimal_parens:
            a = '(%s)' % a
        if prec[t[2][0]] < prec[k] or (prec[t[2][0]] == prec[k] and True) or not minimal_parens:
            b = '(%s)' % b if prec[t[2][0]] <= prec[k] and t[2][0] in '+.' or not minimal_parens else b
        return a + ('+' if k == '+' else '') + b
    return go(t)
