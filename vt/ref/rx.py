"""Reference semantics for regular expressions.  Imports nothing from gambatools.

A reference regexp is a nested tuple:
  ('0',)  ('1',)  ('s', a)  ('*', r)  ('+', l, r)  ('.', l, r)
"""
from functools import lru_cache
from . import fa

ZERO = ('0',)
ONE = ('1',)


def size(r):
    """number of nodes"""
    if r[0] in '01s':
        return 1
    if r[0] == '*':
        return 1 + size(r[1])
    return 1 + size(r[1]) + size(r[2])


def depth(r):
    if r[0] in '01s':
        return 1
    if r[0] == '*':
        return 1 + depth(r[1])
    return 1 + max(depth(r[1]), depth(r[2]))


def symbols(r):
    if r[0] in '01':
        return frozenset()
    if r[0] == 's':
        return frozenset([r[1]])
    if r[0] == '*':
        return symbols(r[1])
    return symbols(r[1]) | symbols(r[2])


# ----------------------------------------------------------- reference A: denotation up to n
@lru_cache(maxsize=200000)
def denot(r, n):
    """{ w in [[r]] | len(w) <= n }"""
    k = r[0]
    if k == '0':
        return frozenset()
    if k == '1':
        return frozenset([''])
    if k == 's':
        return frozenset([r[1]]) if len(r[1]) <= n else frozenset()
    if k == '+':
        return denot(r[1], n) | denot(r[2], n)
    if k == '.':
        A = denot(r[1], n)
        B = denot(r[2], n)
        return frozenset(x + y for x in A for y in B if len(x) + len(y) <= n)
    if k == '*':
        A = denot(r[1], n) - {''}
        res = {''}
        frontier = {''}
        while frontier:
            new = set()
            for x in frontier:
                for y in A:
                    z = x + y
                    if len(z) <= n and z not in res:
                        res.add(z)
                        new.add(z)
            frontier = new
        return frozenset(res)
    raise ValueError(r)


# ----------------------------------------------------------- reference B: Brzozowski derivatives
@lru_cache(maxsize=200000)
def nullable(r):
    k = r[0]
    if k == '0' or k == 's':
        return False
    if k == '1' or k == '*':
        return True
    if k == '+':
        return nullable(r[1]) or nullable(r[2])
    return nullable(r[1]) and nullable(r[2])


def _sum(a, b):
    if a == ZERO:
        return b
    if b == ZERO:
        return a
    if a == b:
        return a
    return ('+', a, b)


def _cat(a, b):
    if a == ZERO or b == ZERO:
        return ZERO
    if a == ONE:
        return b
    if b == ONE:
        return a
    return ('.', a, b)


@lru_cache(maxsize=400000)
def deriv(r, a):
    k = r[0]
    if k in '01':
        return ZERO
    if k == 's':
        if r[1] == a:
            return ONE
        if len(r[1]) > 1 and r[1][0] == a:
            return ('s', r[1][1:])          # a symbol whose name has several characters denotes that string
        return ZERO
    if k == '+':
        return _sum(deriv(r[1], a), deriv(r[2], a))
    if k == '.':
        d = _cat(deriv(r[1], a), r[2])
        if nullable(r[1]):
            return _sum(d, deriv(r[2], a))
        return d
    if k == '*':
        return _cat(deriv(r[1], a), r)
    raise ValueError(r)


def matches_deriv(r, w):
    for a in w:
        r = deriv(r, a)
        if r == ZERO:
            return False
    return nullable(r)


# ----------------------------------------------------------- own Thompson construction
def thompson(r, Sigma=None):
    """returns a reference NFA (see fa.py) for r"""
    cnt = [0]
    T = []

    def fresh():
        cnt[0] += 1
        return 'n%05d' % cnt[0]

    def go(r):
        s, t = fresh(), fresh()
        k = r[0]
        if k == '0':
            pass
        elif k == '1':
            T.append((s, None, t))
        elif k == 's':
            T.append((s, r[1], t))
        elif k == '+':
            s1, t1 = go(r[1])
            s2, t2 = go(r[2])
            T.extend([(s, None, s1), (s, None, s2), (t1, None, t), (t2, None, t)])
        elif k == '.':
            s1, t1 = go(r[1])
            s2, t2 = go(r[2])
            T.extend([(s, None, s1), (t1, None, s2), (t2, None, t)])
        elif k == '*':
            s1, t1 = go(r[1])
            T.extend([(s, None, t), (s, None, s1), (t1, None, s1), (t1, None, t)])
        return s, t

    import sys
    old = sys.getrecursionlimit()
    sys.setrecursionlimit(max(old, 20000))
    try:
        s, t = go(r)
    finally:
        sys.setrecursionlimit(old)
    Q = ['n%05d' % i for i in range(1, cnt[0] + 1)]
    S = sorted(symbols_iter(r) | (set(Sigma) if Sigma else set()))
    return (tuple(Q), tuple(S), tuple(T), s, (t,))


def symbols_iter(r):
    """iterative (safe on very deep trees)"""
    out = set()
    st = [r]
    while st:
        x = st.pop()
        if x[0] == 's':
            out.add(x[1])
        elif x[0] == '*':
            st.append(x[1])
        elif x[0] in '+.':
            st.append(x[1])
            st.append(x[2])
    return out


def size_iter(r):
    n = 0
    st = [r]
    while st:
        x = st.pop()
        n += 1
        if x[0] == '*':
            st.append(x[1])
        elif x[0] in '+.':
            st.append(x[1])
            st.append(x[2])
    return n


def to_dfa(r, Sigma=None):
    return fa.determinize(thompson(r, Sigma))[0]


def distinguish(r1, r2):
    S = symbols_iter(r1) | symbols_iter(r2)
    return fa.dfa_distinguish(to_dfa(r1, S), to_dfa(r2, S))


# ----------------------------------------------------------- printing (own renderers)
def show(r):
    k = r[0]
    if k in '01':
        return k
    if k == 's':
        return r[1]
    if k == '*':
        return '(' + show(r[1]) + ')*'
    return '(' + show(r[1]) + k + show(r[2]) + ')'
