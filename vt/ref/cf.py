"""Reference semantics for context-free grammars.  Imports nothing from gambatools.

A reference grammar is a hashable tuple  RG = (V, Sigma, R, S)
  V      sorted tuple of variable names
  Sigma  sorted tuple of terminal names
  R      tuple of rules (A, rhs) where rhs is a tuple of (kind, name), kind in 'VT'
  S      start variable
"""
from functools import lru_cache


def make(V, Sigma, R, S):
    return (tuple(sorted(V)), tuple(sorted(Sigma)), tuple(R), S)


# ----------------------------------------------------------- reference A: bounded languages of all variables
@lru_cache(maxsize=4096)
def languages_upto(RG, n):
    """least fixpoint: L[A] = { w | A =>* w, |w| <= n } for every variable A"""
    V, Sigma, R, S = RG
    L = {A: set() for A in V}
    for (A, rhs) in R:
        L.setdefault(A, set())
        for (k, x) in rhs:
            if k == 'V':
                L.setdefault(x, set())
    changed = True
    while changed:
        changed = False
        for (A, rhs) in R:
            part = {''}
            for (k, x) in rhs:
                if k == 'T':
                    part = {w + x for w in part if len(w) + len(x) <= n}
                else:
                    Lx = L[x]
                    part = {w + y for w in part for y in Lx if len(w) + len(y) <= n}
                if not part:
                    break
            if part and not part <= L[A]:
                L[A] |= part
                changed = True
    return {A: frozenset(ws) for A, ws in L.items()}


def language_upto(RG, n):
    return languages_upto(RG, n).get(RG[3], frozenset())


# ----------------------------------------------------------- reference B: span fixpoint for a single word
def derives(RG, w):
    """returns table D with D[A] = set of (i, j) such that A =>* w[i:j] (least fixpoint,
    generalised CYK on arbitrary grammars including epsilon / unit / cyclic rules)"""
    V, Sigma, R, S = RG
    n = len(w)
    D = {A: set() for A in V}
    for (A, rhs) in R:
        D.setdefault(A, set())
        for (k, x) in rhs:
            if k == 'V':
                D.setdefault(x, set())
    changed = True
    while changed:
        changed = False
        for (A, rhs) in R:
            # spans reachable by matching rhs from each start i
            for i in range(n + 1):
                ends = {i}
                for (k, x) in rhs:
                    new = set()
                    if k == 'T':
                        for e in ends:
                            if w.startswith(x, e) and len(x) > 0:
                                new.add(e + len(x))
                    else:
                        Dx = D[x]
                        for e in ends:
                            for (a, b) in Dx:
                                if a == e:
                                    new.add(b)
                    ends = new
                    if not ends:
                        break
                for e in ends:
                    if (i, e) not in D[A]:
                        D[A].add((i, e))
                        changed = True
    return D


def accepts(RG, w):
    return (0, len(w)) in derives(RG, w).get(RG[3], set())


# ----------------------------------------------------------- normal form recognisers (own, after Sipser)
def is_cnf(RG):
    """Sipser: every rule is A -> BC (B, C variables, neither the start variable),
    A -> a, or S -> epsilon for the start variable only."""
    V, Sigma, R, S = RG
    for (A, rhs) in R:
        if len(rhs) == 0:
            if A != S:
                return False
        elif len(rhs) == 1:
            if rhs[0][0] != 'T':
                return False
        elif len(rhs) == 2:
            if rhs[0][0] != 'V' or rhs[1][0] != 'V' or rhs[0][1] == S or rhs[1][1] == S:
                return False
        else:
            return False
    return True


def well_formed(RG):
    V, Sigma, R, S = RG
    Vs, Ss = set(V), set(Sigma)
    for (A, rhs) in R:
        if A not in Vs:
            return False
        for (k, x) in rhs:
            if (k == 'V' and x not in Vs) or (k == 'T' and x not in Ss):
                return False
    return True


def productive_nonempty(RG):
    """variables deriving at least one NON-EMPTY word"""
    V, Sigma, R, S = RG
    prod = set()          # derives some word
    changed = True
    while changed:
        changed = False
        for (A, rhs) in R:
            if A not in prod and all(k == 'T' or x in prod for (k, x) in rhs):
                prod.add(A)
                changed = True
    ne = set()
    changed = True
    while changed:
        changed = False
        for (A, rhs) in R:
            if A in ne:
                continue
            if all(k == 'T' or x in prod for (k, x) in rhs) and any(k == 'T' or x in ne for (k, x) in rhs):
                ne.add(A)
                changed = True
    return ne


def show(RG):
    V, Sigma, R, S = RG
    out = []
    for (A, rhs) in R:
        out.append('%s -> %s' % (A, ' '.join(x for (_, x) in rhs) if rhs else 'ε'))
    return '[S=%s] ' % S + ' ; '.join(out)


def parse_tree(RG, w, rng=None):
    """a derivation tree for w (CNF-shaped rules only: A -> BC, A -> a, A -> eps): nested tuples
    (A, children) with children a list of subtrees or a terminal string; None if w is not derivable"""
    D = derives(RG, w)

    def build(A, i, j):
        cands = []
        for (B, rhs) in RG[2]:
            if B != A:
                continue
            if len(rhs) == 0 and i == j:
                cands.append((A, []))
            elif len(rhs) == 1 and rhs[0][0] == 'T' and j == i + 1 and w[i] == rhs[0][1]:
                cands.append((A, [rhs[0][1]]))
            elif len(rhs) == 2 and rhs[0][0] == 'V' and rhs[1][0] == 'V':
                for m in range(i + 1, j):
                    if (i, m) in D.get(rhs[0][1], ()) and (m, j) in D.get(rhs[1][1], ()):
                        cands.append((A, rhs[0][1], rhs[1][1], m))
        if not cands:
            return None
        c = cands[0] if rng is None else rng.choice(cands)
        if len(c) == 2:
            return c
        (A, B, C, m) = c
        return (A, [build(B, i, m), build(C, m, j)])
    if (0, len(w)) not in D.get(RG[3], ()):
        return None
    return build(RG[3], 0, len(w))


def linearize(tree, order, rng=None):
    """derivation (list of sentential forms, each a list of names) from a tree; order: 'leftmost' | 'rightmost' | 'random'"""
    form = [tree]
    out = [[tree[0]]]
    while True:
        idx = [i for i, x in enumerate(form) if isinstance(x, tuple)]
        if not idx:
            break
        i = idx[0] if order == 'leftmost' else (idx[-1] if order == 'rightmost' else rng.choice(idx))
        (A, children) = form[i]
        form = form[:i] + list(children) + form[i + 1:]
        out.append([x[0] if isinstance(x, tuple) else x for x in form])
    return out
