"""Locate the repository under test and third-party deps.  Import this first."""
import os
import sys
import subprocess

VERIF = os.path.dirname(os.path.dirname(os.path.abspath(__file__)))
REPO = os.path.abspath(os.environ.get('VERIF_REPO', '/repo'))
SRC = os.path.join(REPO, 'src')
DEPS = os.path.join(VERIF, '.deps')
PY = '/venv/bin/python'


def ensure_deps():
    """icontract lives in the git-ignored /verif/.deps; (re)install it from the offline
    wheelhouse when it is missing (fresh restore)."""
    if not os.path.isdir(os.path.join(DEPS, 'icontract')):
        subprocess.run([PY, '-m', 'pip', 'install', '-q', '--no-index', '--find-links', '/opt/veriftools/wheels',
                        '--target', DEPS, 'icontract'], stdout=subprocess.DEVNULL, stderr=subprocess.DEVNULL)
    return os.path.isdir(os.path.join(DEPS, 'icontract'))


def setup_paths():
    if SRC in sys.path:
        sys.path.remove(SRC)
    sys.path.insert(0, SRC)
    if VERIF not in sys.path:
        sys.path.insert(1, VERIF)
    if DEPS not in sys.path:
        sys.path.append(DEPS)      # appended: /venv's own packages keep precedence


def load_repo():
    setup_paths()
    import gambatools
    f = os.path.abspath(gambatools.__file__)
    if not f.startswith(SRC + os.sep):
        raise RuntimeError('gambatools imported from %s, expected under %s' % (f, SRC))
    return gambatools


_mk = None


def make_notebook_module():
    """notebooks/make_notebook.py of the tree under test, loaded by path"""
    global _mk
    if _mk is None:
        import importlib.util
        p = os.path.join(REPO, 'notebooks', 'make_notebook.py')
        spec = importlib.util.spec_from_file_location('vt_make_notebook', p)
        _mk = importlib.util.module_from_spec(spec)
        sys.modules['vt_make_notebook'] = _mk
        spec.loader.exec_module(_mk)
    return _mk
