"""Bridges between library objects and reference tuples (extraction reads only public
fields; builders create library objects from reference tuples in a chosen container kind)."""
from collections import defaultdict

from vt import env
env.load_repo()

from gambatools.dfa import DFA
from gambatools.nfa import NFA
from gambatools.pda import PDA
from gambatools.tm import TM
from gambatools.cfg import CFG, Rule, Alternative, Variable, Terminal
from gambatools import regexp as gr

from vt.ref import fa, rx, cf, pd, tmr


# ------------------------------------------------------------------ DFA / NFA
def dfa_ref(D):
    T = [(p, a, q) for (p, a), q in D.delta.items()]
    return fa.make(D.Q, D.Sigma, T, D.q0, D.F)


def nfa_ref(N):
    eps = N.epsilon
    T = []
    for (p, a), Q1 in list(N.delta.items()):
        for q in Q1:
            T.append((p, None if a == eps else a, q))
    return fa.make(N.Q, N.Sigma, T, N.q0, N.F)


def any_fa_ref(A):
    return nfa_ref(A) if isinstance(A, NFA) else dfa_ref(A)


def _scr(seq, scramble, salt):
    """deterministic pseudo-random insertion order (set / dict iteration order depends on it)"""
    seq = list(seq)
    if scramble is not None:
        import random
        random.Random('%s/%s' % (scramble, salt)).shuffle(seq)
    return seq


def _mkset(seq, scramble, salt):
    s = set()
    for x in _scr(seq, scramble, salt):
        s.add(x)
    return s


def build_dfa(RD, check_validity=True, scramble=None):
    """scramble: seed for the ORDER in which states, symbols and transitions are inserted into the sets and
    the dict (the observable content is the same; iteration orders differ)"""
    delta = {}
    for (p, a, q) in _scr(RD[2], scramble, 'delta'):
        delta[(p, a)] = q
    return DFA(_mkset(RD[0], scramble, 'Q'), _mkset(RD[1], scramble, 'Sigma'), delta, RD[3], _mkset(RD[4], scramble, 'F'), check_validity=check_validity)


NFA_KINDS = ('defaultdict_set', 'defaultdict_lambda', 'dict_total', 'dict_partial', 'dict_total_aliased')


def build_nfa(RN, eps='', kind='defaultdict_set', scramble=None):
    """kind selects the container admitted by the NFA class for delta; scramble: insertion order seed"""
    if kind == 'defaultdict_set':
        delta = defaultdict(set)
    elif kind == 'defaultdict_lambda':
        delta = defaultdict(lambda: set([]))
    else:
        delta = {}
    for (p, a, q) in _scr(RN[2], scramble, 'delta'):
        key = (p, eps if a is None else a)
        if key not in delta:
            delta[key] = set()
        delta[key].add(q)
    if kind == 'dict_total':
        for p in RN[0]:
            for a in list(RN[1]) + [eps]:
                delta.setdefault((p, a), set())
    if kind == 'dict_total_aliased':
        # as produced by dict.fromkeys(keys, set()) with some entries assigned afterwards: ONE empty set object under all keys
        # without moves, and ONE set object under all keys that have equal targets (aliasing among the values of delta)
        shared = set()
        for p in RN[0]:
            for a in list(RN[1]) + [eps]:
                delta.setdefault((p, a), shared)
        seen = {}
        for k in list(delta):
            fs = frozenset(delta[k])
            if fs and fs in seen:
                delta[k] = seen[fs]
            elif fs:
                seen[fs] = delta[k]
    return NFA(_mkset(RN[0], scramble, 'Q'), _mkset(RN[1], scramble, 'Sigma'), delta, RN[3], _mkset(RN[4], scramble, 'F'), eps)


# ------------------------------------------------------------------ regexp
def rx_ref(r):
    """iterative conversion (library trees can be very deep)"""
    # post-order using explicit stack
    out = {}
    st = [(r, False)]
    while st:
        node, done = st.pop()
        if isinstance(node, gr.Zero):
            out[id(node)] = rx.ZERO
        elif isinstance(node, gr.One):
            out[id(node)] = rx.ONE
        elif isinstance(node, gr.Symbol):
            out[id(node)] = ('s', node.symbol)
        elif isinstance(node, gr.Iteration):
            if done:
                out[id(node)] = ('*', out[id(node.operand)])
            else:
                st.append((node, True))
                st.append((node.operand, False))
        elif isinstance(node, (gr.Sum, gr.Concat)):
            if done:
                out[id(node)] = ('+' if isinstance(node, gr.Sum) else '.', out[id(node.left)], out[id(node.right)])
            else:
                st.append((node, True))
                st.append((node.left, False))
                st.append((node.right, False))
        else:
            raise TypeError('not a regexp node: %r' % (node,))
    return out[id(r)]


def build_rx(t):
    k = t[0]
    if k == '0':
        return gr.Zero()
    if k == '1':
        return gr.One()
    if k == 's':
        return gr.Symbol(t[1])
    if k == '*':
        return gr.Iteration(build_rx(t[1]))
    if k == '+':
        return gr.Sum(build_rx(t[1]), build_rx(t[2]))
    return gr.Concat(build_rx(t[1]), build_rx(t[2]))


# ------------------------------------------------------------------ CFG
def cfg_ref(G):
    R = []
    for rule in G.R:
        rhs = tuple(('V' if isinstance(s, Variable) else 'T', str(s)) for s in rule.alternative.symbols)
        R.append((str(rule.variable), rhs))
    return cf.make([str(v) for v in G.V], [str(t) for t in G.Sigma], R, str(G.S))


def build_cfg(RG, epsilon='ε'):
    R = []
    for (A, rhs) in RG[2]:
        R.append(Rule(Variable(A), Alternative([Variable(x) if k == 'V' else Terminal(x) for (k, x) in rhs])))
    return CFG(set(Variable(v) for v in RG[0]), set(Terminal(t) for t in RG[1]), R, Variable(RG[3]), Terminal(epsilon))


# ------------------------------------------------------------------ PDA
def pda_ref(P):
    eps = P.epsilon
    T = []
    for (p, a, u), Q1 in list(P.delta.items()):
        for (q, v) in Q1:
            T.append((p, None if a == eps else a, None if u == eps else u, q, None if v == eps else v))
    return pd.make(P.Q, P.Sigma, P.Gamma, T, P.q0, P.F)


def build_pda(RP, eps='', kind='defaultdict_set', scramble=None):
    delta = defaultdict(set) if kind == 'defaultdict_set' else defaultdict(lambda: set([]))
    e = lambda x: eps if x is None else x
    for (p, a, u, q, v) in _scr(RP[3], scramble, 'delta'):
        delta[(p, e(a), e(u))].add((q, e(v)))
    if scramble is not None and scramble % 3 == 0:
        # aliasing among the values of delta: keys with equal target sets hold ONE set object
        seen = {}
        for k in list(delta):
            fs = frozenset(delta[k])
            if fs in seen:
                delta[k] = seen[fs]
            else:
                seen[fs] = delta[k]
    return PDA(_mkset(RP[0], scramble, 'Q'), _mkset(RP[1], scramble, 'Sigma'), _mkset(RP[2], scramble, 'Gamma'), delta, RP[4], _mkset(RP[5], scramble, 'F'), eps)


# ------------------------------------------------------------------ TM
def tm_ref(T):
    D = [(p, a, q, b, d) for (p, a), (q, b, d) in T.delta.items()]
    return tmr.make(T.Q, T.Sigma, T.Gamma, D, T.q0, T.q_accept, T.q_reject, T.blank)


def build_tm(RT):
    delta = {(p, a): (q, b, d) for (p, a, q, b, d) in RT[3]}
    return TM(set(RT[0]), set(RT[1]), set(RT[2]), delta, RT[4], RT[5], RT[6], RT[7])


# ------------------------------------------------------------------ canonical forms (observable content)
def canon(x):
    """canonical, hashable, order-free form of the OBSERVABLE content of an argument.
    Empty delta entries (which a read of a defaultdict may create) and insertion order are
    not observable content."""
    if isinstance(x, NFA):
        return ('NFA', nfa_ref(x), x.epsilon)
    if isinstance(x, DFA):
        return ('DFA', dfa_ref(x))
    if isinstance(x, PDA):
        return ('PDA', pda_ref(x), x.epsilon)
    if isinstance(x, TM):
        return ('TM', tm_ref(x))
    if isinstance(x, CFG):
        RG = cfg_ref(x)
        return ('CFG', RG[0], RG[1], tuple(sorted(RG[2])), RG[3], str(x.epsilon))
    if isinstance(x, gr.Regexp):
        return ('RX', rx_ref(x))
    if isinstance(x, (set, frozenset)):
        return ('set', tuple(sorted((canon(e) for e in x), key=repr)))
    if isinstance(x, (list, tuple)):
        return (type(x).__name__, tuple(canon(e) for e in x))
    if isinstance(x, dict):
        return ('dict', tuple(sorted(((canon(k), canon(v)) for k, v in x.items()), key=repr)))
    if isinstance(x, (str, int, bool, float)) or x is None:
        return x
    return ('obj', type(x).__name__, repr(x))


def canon_ordered_cfg(G):
    """CFG with rule ORDER kept (printing depends on it)"""
    RG = cfg_ref(G)
    return ('CFGo', RG[0], RG[1], RG[2], RG[3])
