"""Contracts on the real library functions, attached from outside.

A contract is an icontract postcondition (named condition function, explicit error=) that
RECORDS what it observes and returns True, wrapped in an exception observer (icontract does
not evaluate postconditions when the function raises).  Because the code base binds
functions with `from m import f`, the wrapped object is rebound in EVERY loaded gambatools
module (and in notebooks/make_notebook.py) whose namespace holds the original."""
import functools
import inspect
import sys

from vt import env
env.load_repo()

try:
    import icontract
    HAVE_ICONTRACT = True
except Exception:                       # pragma: no cover - fallback keeps the checks usable
    icontract = None
    HAVE_ICONTRACT = False


class PostBroken(Exception):
    pass


_installed = []      # (module, name, original)


def _modules():
    for name, mod in list(sys.modules.items()):
        if mod is None:
            continue
        if name == 'gambatools' or name.startswith('gambatools.') or name == 'vt_make_notebook':
            yield mod


def import_all():
    """import every gambatools module so that all `from m import f` bindings exist"""
    import importlib
    import pkgutil
    import gambatools
    for m in pkgutil.iter_modules(gambatools.__path__):
        if m.name in ('draw_sigma', 'notebook_sigma'):
            continue
        try:
            importlib.import_module('gambatools.' + m.name)
        except Exception:
            pass


def rebind(orig, new):
    n = 0
    for mod in _modules():
        for k, v in list(vars(mod).items()):
            if v is orig:
                setattr(mod, k, new)
                _installed.append((mod, k, orig))
                n += 1
    return n


def uninstall_all():
    while _installed:
        mod, k, orig = _installed.pop()
        setattr(mod, k, orig)


def _untimed(fn):
    """the CPU guard around a library call (ITIMER_VIRTUAL, see vt.rec.cpu_guard) must measure the LIBRARY, not the monitor: the
    timer is paused while a condition / snapshot function of ours runs (their cost grows with the size of the operands)"""
    import signal

    @functools.wraps(fn)
    def w(*args, **kwargs):
        try:
            remaining, _ = signal.setitimer(signal.ITIMER_VIRTUAL, 0)
        except Exception:
            remaining = 0
        try:
            return fn(*args, **kwargs)
        finally:
            if remaining > 0:
                signal.setitimer(signal.ITIMER_VIRTUAL, remaining)
    return w


def contract(orig, post=None, snapshot=None, on_raise=None, pre=None):
    """post(<args by name>, result[, OLD]) -> records, returns True
    snapshot(<args by name>) -> value available as OLD.pre
    on_raise(exc, args, kwargs) -> records
    pre(args, kwargs) -> called before (plain hook, e.g. to start a step budget)"""
    f = orig
    if post is not None:
        post = _untimed(post)
        if snapshot is not None:
            snapshot = _untimed(snapshot)
        if HAVE_ICONTRACT:
            f = icontract.ensure(post, error=PostBroken)(f)
            if snapshot is not None:
                f = icontract.snapshot(snapshot, name='pre')(f)
        else:
            f = _plain_contract(f, post, snapshot)

    inner = f
    depth = [0]

    @functools.wraps(orig)
    def observer(*args, **kwargs):
        if depth[0] > 0:                 # recursive / nested call of the same function: only
            return orig(*args, **kwargs)  # the outermost call is a contract evaluation
        if pre is not None:
            pre(args, kwargs)
        depth[0] += 1
        try:
            return inner(*args, **kwargs)
        except Exception as e:
            if on_raise is not None and not isinstance(e, PostBroken):
                on_raise(e, args, kwargs)
            raise
        finally:
            depth[0] -= 1
    observer.__vt_original__ = orig
    return observer


def _plain_contract(f, post, snapshot):
    sig = inspect.signature(f)
    pnames = list(inspect.signature(post).parameters)

    class _Old(object):
        pass

    @functools.wraps(f)
    def w(*args, **kwargs):
        ba = sig.bind(*args, **kwargs)
        ba.apply_defaults()
        old = _Old()
        if snapshot is not None:
            sn = list(inspect.signature(snapshot).parameters)
            old.pre = snapshot(**{k: ba.arguments[k] for k in sn})
        result = f(*args, **kwargs)
        kw = {}
        for k in pnames:
            if k == 'result':
                kw[k] = result
            elif k == 'OLD':
                kw[k] = old
            else:
                kw[k] = ba.arguments[k]
        post(**kw)
        return result
    return w


def install(module_name, func_name, post=None, snapshot=None, on_raise=None, pre=None):
    import importlib
    mod = importlib.import_module(module_name)
    orig = getattr(mod, func_name)
    if hasattr(orig, '__vt_original__'):
        raise RuntimeError('%s.%s already wrapped' % (module_name, func_name))
    new = contract(orig, post, snapshot, on_raise, pre)
    n = rebind(orig, new)
    return orig, new, n
