"""Program-point hooks through sys.monitoring (PEP 669): LINE events enabled with
set_local_events on the code objects of selected library functions only.

The callback can (a) count executed lines against a logical step budget and raise
BudgetExceeded from inside the callback, (b) record line coverage of the watched functions,
(c) call a user probe with the live frame at chosen lines (frame inspection)."""
import sys

mon = sys.monitoring
TOOL = 3


class BudgetExceeded(BaseException):
    """logical step budget exhausted (BaseException: the library's `except Exception`
    clauses must not swallow it)"""


def code_objects_of(func):
    func = getattr(func, '__vt_original__', func)
    out = []
    st = [func.__code__]
    while st:
        c = st.pop()
        out.append(c)
        for k in c.co_consts:
            if hasattr(k, 'co_code'):
                st.append(k)
    return out


def executable_lines(code):
    return sorted({l for (_, _, l) in code.co_lines() if l is not None and l != code.co_firstlineno})


class LineMonitor(object):
    _active = None

    def __init__(self):
        self.codes = {}          # code -> name
        self.steps = 0
        self.budget = None
        self.total_steps = 0
        self.cover = {}          # code name -> set(lines)
        self.probes = {}         # (code, line) -> fn(frame)
        self.any_probe = {}      # code -> fn(frame, line)
        self.max_steps_seen = 0
        self.enabled = False

    # -- configuration ---------------------------------------------------
    def watch(self, func, name=None):
        for c in code_objects_of(func):
            nm = (name or getattr(func, '__name__', '?')) + ('' if c.co_name == getattr(func, '__name__', None) else '.' + c.co_name)
            self.codes[c] = nm
            self.cover.setdefault(nm, set())
            if self.enabled:
                mon.set_local_events(TOOL, c, mon.events.LINE)
        return self

    def probe_all(self, func, fn, nested=None):
        """call fn(frame, line) at every line of func (or of its nested function `nested`)"""
        for c in code_objects_of(func):
            if (nested is None and c.co_name == getattr(func, '__vt_original__', func).__name__) or c.co_name == nested:
                self.any_probe[c] = fn

    def start(self):
        if LineMonitor._active is not None:
            raise RuntimeError('a LineMonitor is already active')
        mon.use_tool_id(TOOL, 'vt-linemonitor')
        mon.register_callback(TOOL, mon.events.LINE, self._on_line)
        for c in self.codes:
            mon.set_local_events(TOOL, c, mon.events.LINE)
        self.enabled = True
        LineMonitor._active = self
        return self

    def stop(self):
        if not self.enabled:
            return
        for c in self.codes:
            mon.set_local_events(TOOL, c, 0)
        mon.register_callback(TOOL, mon.events.LINE, None)
        mon.free_tool_id(TOOL)
        self.enabled = False
        LineMonitor._active = None

    # -- per call --------------------------------------------------------
    def begin(self, budget=None):
        self.steps = 0
        self.budget = budget

    def end(self):
        n = self.steps
        self.total_steps += n
        if n > self.max_steps_seen:
            self.max_steps_seen = n
        self.budget = None
        return n

    def _on_line(self, code, line):
        self.steps += 1
        nm = self.codes.get(code)
        if nm is not None:
            self.cover[nm].add(line)
        p = self.any_probe.get(code)
        if p is not None:
            p(sys._getframe(1), line)
        if self.budget is not None and self.steps > self.budget:
            b = self.budget
            self.budget = None          # fire once
            raise BudgetExceeded('more than %d lines executed' % b)

    def coverage_report(self):
        rep = {}
        for c, nm in self.codes.items():
            lines = executable_lines(c)
            hit = self.cover.get(nm, set())
            rep[nm] = {'lines': len(lines), 'hit': len([l for l in lines if l in hit]),
                       'never': [l for l in lines if l not in hit]}
        return rep
