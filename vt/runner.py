"""Parent side: shard a property's workload over interpreters with different PYTHONHASHSEED,
collect what the monitors observed, decide the three-valued verdict, write evidence."""
import collections
import importlib
import json
import os
import random
import subprocess
import sys
import tempfile
import time

from vt import env
from vt.rec import Rec, ShardDeadline, jsonable, h64

KNOWN_FILE = os.path.join(env.VERIF, 'known_findings.json')
NCPU = 16


def load_known():
    try:
        with open(KNOWN_FILE) as f:
            data = json.load(f)
    except FileNotFoundError:
        return []
    return data.get('findings', [])


def hashseed_for(seed, i):
    return (seed * 1000003 + i * 7919 + 17) % 4294967295 + 1


def driver(prop):
    return importlib.import_module('vt.props.' + prop.lower())


def run_shard_inproc(prop, tier, seed, shard, nshards, out):
    """child entry point"""
    import faulthandler
    faulthandler.enable()
    env.load_repo()
    hs = os.environ.get('PYTHONHASHSEED', 'random')
    rec = Rec(prop, tier, seed, shard, nshards, hs)
    rec.flush_path = out + '.partial'
    mod = driver(prop)
    rec.deadline = time.time() + 0.7 * mod.TIMEOUT[tier]
    rng = random.Random('%s/%s/%d/%d' % (prop, tier, seed, shard))
    err = None
    truncated = False
    try:
        from vt.props import common
        rc = common.replay_case()
        if isinstance(rc, dict) and rc.get('cls') == 'repo_test' and hasattr(mod, 'install'):
            mod.install(rec)
            common.run_repo_tests(rec, seed, nodeid=rc['nodeid'], fixed_seed=rc.get('random_seed'))
        else:
            mod.run(rec, rng, tier)
            # one interpreter per check also runs the repository's own tests under the same monitors
            if rc is None and hasattr(mod, 'install') and shard == nshards - 1 and getattr(mod, 'REPO_TESTS', True) and (tier == 'thorough' or os.environ.get('VT_REPO_TESTS') == '1'):
                common.run_repo_tests(rec, seed)
    except ShardDeadline:
        truncated = True
    except BaseException as e:      # the harness itself failed: inconclusive, never a verdict
        import traceback
        err = traceback.format_exc()
    d = rec.dump()
    d['harness_error'] = err
    d['truncated'] = truncated
    with open(out, 'w') as f:
        json.dump(d, f)
    return 0


def run_property(prop, tier, seed, replay=None):
    t0 = time.time()
    env.ensure_deps()
    mod = driver(prop)
    known = [k for k in load_known() if k.get('property') == prop]
    open_keys = {k['key']: k for k in known if k.get('status') == 'open'}

    if replay:
        with open(replay) as f:
            w = json.load(f)
        nsh = 1
        jobs = [(0, str(w.get('hashseed', 0)), w)]
    else:
        nsh = mod.SHARDS[tier]
        jobs = [(i, str(hashseed_for(seed, i)), None) for i in range(nsh)]

    tmpdir = tempfile.mkdtemp(prefix='vt_%s_' % prop)
    procs = []
    pending = list(jobs)
    results = []
    failures = []
    limit = mod.TIMEOUT[tier]
    running = []

    def launch(job):
        i, hs, w = job
        out = os.path.join(tmpdir, 'shard%d.json' % i)
        envv = dict(os.environ)
        envv['PYTHONHASHSEED'] = hs
        envv['VERIF_REPO'] = env.REPO
        envv['PYTHONPATH'] = env.SRC + os.pathsep + env.VERIF
        envv['PYTHONDONTWRITEBYTECODE'] = '1'
        cmd = [env.PY, os.path.join(env.VERIF, 'vcheck.py'), '--child', '--property', prop, '--tier', tier,
               '--seed', str(seed), '--shard', str(i), '--nshards', str(nsh), '--out', out]
        if w is not None:
            cf = os.path.join(tmpdir, 'case.json')
            with open(cf, 'w') as f:
                json.dump(w, f)
            cmd += ['--replay-case', cf]
        # the child's output goes to a file, never to a pipe: the library prints (traces, warnings), and a full pipe that
        # nobody drains would block the child until the wall-clock watchdog fires
        logf = open(out + '.log', 'wb')
        p = subprocess.Popen(cmd, env=envv, stdout=logf, stderr=subprocess.STDOUT, stdin=subprocess.DEVNULL, cwd=env.VERIF)
        logf.close()
        return (p, job, out, time.time())

    while pending or running:
        while pending and len(running) < NCPU:
            running.append(launch(pending.pop(0)))
        time.sleep(0.05)
        still = []
        for (p, job, out, ts) in running:
            rc = p.poll()
            if rc is None:
                if time.time() - ts > limit:
                    p.kill()
                    p.wait()
                    failures.append('shard %d: wall-clock watchdog (%ds) fired' % (job[0], limit))
                    # what the monitors of that interpreter had observed before it was killed still counts (a recorded
                    # violation is a real observation; the run as a whole can no longer be 'held')
                    try:
                        with open(out + '.partial') as f:
                            results.append(json.load(f))
                    except (OSError, ValueError):
                        pass
                else:
                    still.append((p, job, out, ts))
                continue
            try:
                with open(out + '.log', 'rb') as lf:
                    lf.seek(0, 2)
                    size = lf.tell()
                    lf.seek(max(0, size - 4000))
                    txt = lf.read().decode('utf8', 'replace')
            except OSError:
                txt = ''
            if rc != 0 or not os.path.exists(out):
                failures.append('shard %d: exit %s: %s' % (job[0], rc, txt[-2000:]))
                continue
            with open(out) as f:
                d = json.load(f)
            if d.get('harness_error'):
                failures.append('shard %d: harness error: %s' % (job[0], d['harness_error'][-3000:]))
            if d.get('truncated'):
                failures.append('shard %d: workload truncated after 70 %% of the wall-clock budget (%d s)' % (job[0], limit))
            results.append(d)
        running = still

    import shutil
    shutil.rmtree(tmpdir, ignore_errors=True)

    # ---------------------------------------------------------------- aggregate
    agg = collections.Counter()
    classes = collections.Counter()
    monitors = collections.Counter()
    inconc = collections.Counter()
    vcount = collections.Counter()
    hashes = set()
    samples = []
    witnesses = []
    schedules = {}
    trivial = 0
    evaluations = 0
    extra = {}
    for d in results:
        evaluations += d['evaluations']
        agg.update(d['counters'])
        classes.update(d['classes'])
        monitors.update(d['monitors'])
        inconc.update(d['inconclusive'])
        vcount.update(d['vcount'])
        hashes.update(d['hashes'])
        trivial += d['trivial']
        for s in d['samples']:
            if len(samples) < 6 and not any(x['class'] == s['class'] for x in samples):
                samples.append(s)
        witnesses.extend(d['violations'])
        for k, v in d['schedules'].items():
            schedules.setdefault(k, set()).update(v)
        for k, v in (d.get('extra') or {}).items():
            if k == 'anchored_line_coverage':
                cur = extra.setdefault(k, {})
                for fn, c in v.items():
                    if fn not in cur:
                        cur[fn] = dict(c)
                    else:
                        cur[fn]['never'] = [l for l in cur[fn]['never'] if l in c['never']]
                        cur[fn]['hit'] = cur[fn]['lines'] - len(cur[fn]['never'])
            elif isinstance(v, list):
                extra.setdefault(k, [])
                for e in v:
                    if e not in extra[k] and len(extra[k]) < 50:
                        extra[k].append(e)
            elif isinstance(v, (int, float)):
                extra[k] = extra.get(k, 0) + v
            else:
                extra[k] = v

    if hasattr(mod, 'cross_shard') and not replay and results:
        xv, info = mod.cross_shard(results)
        for (k, what, details) in xv:
            vcount[k] += 1
            w = {'property': prop, 'key': k, 'what': what, 'case': None, 'seed': seed, 'tier': tier}
            w.update(jsonable(details))
            witnesses.append(w)
        extra.update(info)

    # ---------------------------------------------------------------- verdict
    new_keys = [k for k in vcount if k not in open_keys]
    known_hit = [k for k in vcount if k in open_keys]
    lines = []
    for k in sorted(known_hit):
        lines.append('KNOWN-FINDING: property=%s %s [%s] (%d observations this run)' % (prop, open_keys[k]['what'], k, vcount[k]))
    rdir = os.path.join(os.environ.get('VT_REPLAY_DIR') or os.path.join(env.VERIF, 'replays'), prop)
    replay_paths = []
    if new_keys:
        os.makedirs(rdir, exist_ok=True)
        for k in sorted(new_keys):
            w = next((x for x in witnesses if x['key'] == k), None)
            if w is None:
                w = {'property': prop, 'key': k, 'what': 'witness list truncated'}
            w = dict(w)
            w['observations'] = vcount[k]
            path = os.path.join(rdir, '%s.json' % h64(k))
            with open(path, 'w') as f:
                json.dump(w, f, indent=1, ensure_ascii=False)
            replay_paths.append(path)
            lines.append('VIOLATION property=%s replay=%s' % (prop, path))
            lines.append('  key=%s  what=%s  observations=%d' % (k, w.get('what'), vcount[k]))

    missing = [m for m in mod.REQUIRED if monitors.get(m, 0) == 0] if not replay else []
    selfcheck_fail = agg.get('oracle_selfcheck_fail', 0)
    inconclusive_reasons = []
    if failures:
        inconclusive_reasons += failures
    if missing:
        inconclusive_reasons.append('deciding monitors never evaluated: %s' % ', '.join(missing))
    if selfcheck_fail:
        inconclusive_reasons.append('reference models disagreed with each other on %d cases' % selfcheck_fail)
    n_inconc = sum(inconc.values())
    if not replay and evaluations > 0 and n_inconc > max(20, 0.02 * evaluations):
        inconclusive_reasons.append('too many inconclusive cases: %s' % dict(inconc))
    if not replay and evaluations == 0:
        inconclusive_reasons.append('no evaluations')

    if new_keys:
        verdict, code = 'violated', 1
    elif inconclusive_reasons:
        verdict, code = 'inconclusive', 2
        lines.append('INCONCLUSIVE property=%s %s' % (prop, ' | '.join(r[:600] for r in inconclusive_reasons)))
    else:
        verdict, code = 'held', 0

    wall = time.time() - t0
    if not replay:
        n_sched = sum(len(v) for v in schedules.values())
        cov = {
            'evaluations': int(evaluations),
            'distinct_nontrivial': len(hashes),
            'rule': mod.RULE,
            'samples': samples if samples else [{'class': 'none', 'case': None}],
            'exhaustive': bool(getattr(mod, 'EXHAUSTIVE', {}).get(tier, False)),
            'exhaustive_subspace': getattr(mod, 'EXHAUSTIVE_NOTE', ''),
            'trivial_or_duplicate_cases': trivial,
            'input_classes': dict(classes),
            'monitor_evaluations': dict(monitors),
            'counters': dict(agg),
            'interpreters': len(results),
            'hash_seeds': [d['hashseed'] for d in results][:64],
            'distinct_schedules': {'iso_classes': len(schedules), 'choice_sequences': n_sched,
                                   'max_per_class': max([len(v) for v in schedules.values()] or [0])},
            'inconclusive_cases': dict(inconc),
            'known_findings_hit': {k: vcount[k] for k in known_hit},
            'violation_keys': {k: vcount[k] for k in new_keys},
            'verdict': verdict,
            'inconclusive_reasons': [r[:400] for r in inconclusive_reasons],
            'extra': extra,
        }
        evidence = {
            'property_id': prop, 'tier': tier, 'seed': int(seed), 'level': 'exploration',
            'coverage': cov, 'assumptions': list(mod.ASSUMPTIONS), 'wall_s': round(wall, 2),
            'violations': len(new_keys),
        }
        evdir = os.environ.get('VT_EVIDENCE_DIR') or os.path.join(env.VERIF, 'evidence')
        os.makedirs(evdir, exist_ok=True)
        with open(os.path.join(evdir, '%s.json' % prop), 'w') as f:
            json.dump(evidence, f, indent=1, ensure_ascii=False, sort_keys=True)
    print('%s %s tier=%s seed=%s: %s  evaluations=%d distinct_nontrivial=%d interpreters=%d wall=%.1fs' % (
        prop, getattr(mod, 'TITLE', ''), tier, seed, verdict.upper(), evaluations, len(hashes), len(results), wall))
    for l in lines:
        print(l)
    sys.stdout.flush()
    return code
