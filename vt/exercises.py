"""Exercise instances for the 20 notebook templates: reference objects written as text files by
own renderers, the settings the notebook generator needs, and helpers to run the real
make_notebook + exec the produced code cells headlessly."""
import contextlib
import io
import json
import os
import re

from vt import env
from vt.ref import fa, cf, pd, rx, tmr, txt
from vt.gen import fag, cfgg, pdag, rxg

TEMPLATES = [
    'cfg-cyk-algorithm', 'cfg-derivation', 'cfg-for-language', 'cfg-leftmost-derivation', 'cfg-rightmost-derivation', 'cfg-to-chomsky',
    'dfa-complement', 'dfa-for-language', 'dfa-hopfcroft', 'dfa-intersection', 'dfa-minimal', 'dfa-reverse', 'dfa-symmetric_difference',
    'dfa-to-regexp', 'dfa-union', 'nfa-for-language', 'nfa-to-dfa', 'pda-for-language', 'regexp-for-language', 'tm-for-language',
]


def wl(words, rng=None):
    """word list as the notebooks write it; with rng the empty word is written in one of its legal spellings
    (ε, _, both, repeated) and the order is shuffled"""
    ws = sorted(words, key=lambda w: (len(w), w))
    if rng is None:
        return ' '.join(w if w else 'ε' for w in ws)
    out = []
    for w in ws:
        if w:
            out.append(w)
        else:
            out.extend(rng.choice([['ε'], ['_'], ['ε', '_'], ['_', 'ε', 'ε'], ['ε', 'ε']]))
    rng.shuffle(out)
    return ' '.join(out)


def layout(rng, hostile=True):
    return txt.random_opts(rng) if hostile and rng.random() < 0.7 else dict(txt.PLAIN)


# ---------------------------------------------------------------- reference objects (text-format domain)
def ref_dfa(rng, max_states=5, syms='ab', connected=False, names=None):
    n = rng.randint(1, max_states)
    k = rng.randint(1, len(syms))
    nm = names if names is not None else rng.choice([None, fag.random_names(rng, n), fag.hint_names(rng, n, 'q')])
    if nm is not None:
        nm = nm[:n] if len(nm) >= n else None
    f = fag.random_connected_dfa if connected else rng.choice([fag.random_dfa, fag.random_connected_dfa])
    R = f(rng, n, k, names=nm, p_final=rng.choice([0.3, 0.5, 0.7]))
    if syms != 'abc'[:len(syms)]:
        mp = dict(zip(fag.SYMS, syms))
        R = fa.make(R[0], [mp[a] for a in R[1]], [(p, mp[a], q) for (p, a, q) in R[2]], R[3], R[4])
    return R


def ref_nfa(rng, max_states=5):
    n = rng.randint(1, max_states)
    k = rng.randint(1, 2)
    return fag.random_nfa(rng, n, k, eps_density=rng.choice([0.0, 0.3, 0.8]), names=rng.choice([None, fag.random_names(rng, n)]))


def nondegenerate_grammar(rng, max_vars=4, max_rules=7, max_rhs=4):
    """simple-format grammar: single-letter variables, every variable has a rule and derives a
    non-empty word, rules of the start variable first"""
    for _ in range(200):
        nv = rng.randint(1, max_vars)
        vs = rng.sample('ABCDEFGHIJKLMNOPQRSUVWXYZ', nv)      # 'T' is left free for start_variable
        RG = cfgg.random_grammar(rng, nv, rng.randint(nv, max_rules), max_rhs=max_rhs, nt=rng.randint(1, 2), p_eps=rng.choice([0.0, 0.15, 0.3]),
                                 p_unit=rng.choice([0.0, 0.2]), variables=vs)
        lhs = {A for (A, _) in RG[2]}
        if lhs != set(RG[0]):
            continue
        if cf.productive_nonempty(RG) != set(RG[0]):
            continue
        # start variable's rules first (the simple format takes the first rule's variable as start)
        R = [r for r in RG[2] if r[0] == RG[3]] + [r for r in RG[2] if r[0] != RG[3]]
        return cf.make(RG[0], RG[1], R, RG[3])
    return cf.make('S', 'a', [('S', (('T', 'a'),))], 'S')


def cnf_grammar(rng, max_vars=4):
    for _ in range(200):
        nv = rng.randint(1, max_vars)
        vs = rng.sample('ABCDEFGHIJKLMNOPQRSUVWXYZ', nv)
        RG = cfgg.random_cnf(rng, nv, rng.randint(0, 6), nt=rng.randint(1, 2), variables=vs)
        lhs = {A for (A, _) in RG[2]}
        if lhs != set(RG[0]) or not cf.is_cnf(RG):
            continue
        R = [r for r in RG[2] if r[0] == RG[3]] + [r for r in RG[2] if r[0] != RG[3]]
        return cf.make(RG[0], RG[1], R, RG[3])
    return cf.make('S', 'a', [('S', (('T', 'a'),))], 'S')


def tame_pda(rng):
    """PDA whose epsilon closures stay small (the checker enumerates with the default limit)"""
    for _ in range(200):
        RP = pdag.random_pda(rng, rng.randint(1, 3), rng.randint(1, 2), rng.randint(0, 2), rng.randint(1, 6), p_eps=rng.choice([0.1, 0.3]))
        ok = True
        for q in RP[0]:
            for st in ((), ('X',), ('X', 'Y')):
                _, small = pd.true_eps_closure(RP, [(q, st)], 30)
                ok = ok and small
        if ok:
            return RP
    return pd.make(['q0'], 'a', '', [('q0', 'a', None, 'q0', None)], 'q0', ['q0'])


# ---------------------------------------------------------------- instances
def make_instance(rng, template, tmpdir, tag):
    """returns dict(template, settings, refs) - files are written into tmpdir"""
    def write(name, text):
        p = os.path.join(tmpdir, '%s_%s' % (tag, name))
        with open(p, 'w', encoding='utf8') as f:
            f.write(text)
        return p
    s = {'templatefile': os.path.join(env.REPO, 'notebooks', 'templates', template + '.ipynb'), 'length': '8', 'states': '0',
         'question': 'Give the answer.', 'alphabet': 'a, b', 'language': 'L'}
    refs = {}
    if template in ('cfg-cyk-algorithm', 'cfg-derivation', 'cfg-leftmost-derivation', 'cfg-rightmost-derivation'):
        for _ in range(100):
            RG = cnf_grammar(rng)
            L = sorted(cf.language_upto(RG, 5) - {''}, key=lambda w: (len(w), w))
            if template == 'cfg-cyk-algorithm':
                if not RG[1]:
                    continue
                word = ''.join(rng.choice(RG[1]) for _ in range(rng.randint(1, 5))) if (not L or rng.random() < 0.4) else rng.choice(L)
                break
            if L:
                word = rng.choice(L)
                break
        else:
            RG = cf.make('S', 'a', [('S', (('T', 'a'),))], 'S')
            word = 'a'
        eps = rng.choice(['ε', '_', 'e'])
        s['inputfile'] = write('g.cfg', txt.render_simple_cfg(RG, eps, rng, {'comments': rng.random() < 0.3, 'declare_epsilon': eps == 'e'}))
        s['word'] = word
        refs.update(grammar=RG, word=word)
    elif template == 'cfg-for-language':
        RG = nondegenerate_grammar(rng)
        n = 4
        L = cf.language_upto(RG, n)
        allw = list(fa.words_upto(RG[1], n))
        acc = rng.sample(sorted(L), min(len(L), 6))
        rej = [w for w in allw if w not in L]
        rej = rng.sample(rej, min(len(rej), 6))
        eps = rng.choice(['ε', '_', 'e'])
        s['inputfile'] = write('g.cfg', txt.render_simple_cfg(RG, eps, rng, {'comments': rng.random() < 0.3, 'declare_epsilon': eps == 'e'}))
        s['accepted'] = ' '.join(w if w else rng.choice(['ε', '_']) for w in acc)
        s['rejected'] = ' '.join(w if w else 'ε' for w in rej)
        refs.update(grammar=RG, accepted=acc, rejected=rej)
    elif template == 'cfg-to-chomsky':
        RG = nondegenerate_grammar(rng)
        eps = rng.choice(['ε', '_', 'e'])
        s['inputfile'] = write('g.cfg', txt.render_simple_cfg(RG, eps, rng, {'comments': rng.random() < 0.3, 'declare_epsilon': eps == 'e'}))
        s['start_variable'] = 'T'
        s['length'] = str(rng.choice([0, 1, 3, 4, 5]))
        refs.update(grammar=RG, start_variable='T', length=int(s['length']))
    elif template in ('dfa-complement', 'dfa-reverse', 'dfa-hopfcroft', 'dfa-minimal', 'dfa-for-language', 'dfa-to-regexp'):
        if template == 'dfa-to-regexp':
            syms = rng.choice(['ab', 'xy', 'a', 'abc', 'xyz'])
            R = ref_dfa(rng, max_states=3 if len(syms) <= 2 else 2, syms=syms)
        elif template in ('dfa-hopfcroft', 'dfa-minimal'):
            R = ref_dfa(rng, max_states=6, connected=rng.random() < 0.5)
        elif rng.random() < 0.25:
            # a larger reference automaton: 10..13 states with consecutive numbered names (q0.. or q1.., reaching two-digit suffixes)
            nq = rng.choice([10, 11, 12, 13])
            lo = rng.choice([0, 1])
            R = fag.random_connected_dfa(rng, nq, rng.randint(1, 2), names=['q%d' % i for i in range(lo, lo + nq)], p_final=0.4)
        else:
            R = ref_dfa(rng, max_states=5, syms=rng.choice(['ab', 'abc', '01', 'a']))
        text, _, _ = txt.render_fa(R, 'dfa', None, layout(rng), rng)
        s['inputfile'] = write('d.dfa', text)
        if template == 'dfa-for-language':
            n = rng.choice([0, 1, 3, 4, 5])
            s['length'] = str(n)
            s['states'] = str(rng.choice([0, len(R[0]), len(R[0]) + 2]))
            s['selected_word'] = 'a'
            refs['length'] = n
        elif template == 'dfa-reverse':
            s['length'] = str(rng.choice([0, 1, 4, 5, 6]))
        refs.update(dfa=R)
    elif template in ('dfa-union', 'dfa-intersection', 'dfa-symmetric_difference'):
        syms = rng.choice(['ab', 'a', '01'])
        R1 = ref_dfa(rng, max_states=4, syms=syms)
        R2 = ref_dfa(rng, max_states=4, syms=syms)
        while R2[1] != R1[1]:
            R2 = ref_dfa(rng, max_states=4, syms=syms)
        t1, _, _ = txt.render_fa(R1, 'dfa', None, layout(rng), rng)
        t2, _, _ = txt.render_fa(R2, 'dfa', None, layout(rng), rng)
        s['inputfile1'] = write('d1.dfa', t1)
        s['inputfile2'] = write('d2.dfa', t2)
        refs.update(dfa1=R1, dfa2=R2)
    elif template in ('nfa-for-language', 'nfa-to-dfa'):
        R = ref_nfa(rng)
        eps = rng.choice(['_', 'ε', 'e', 'E'])
        text, _, _ = txt.render_fa(R, 'nfa', eps, layout(rng), rng)
        s['inputfile'] = write('n.nfa', text)
        if template == 'nfa-for-language':
            n = rng.choice([0, 1, 3, 4, 5])
            s['length'] = str(n)
            s['states'] = str(rng.choice([0, len(R[0]), 8]))
            refs['length'] = n
        refs.update(nfa=R, eps=eps)
    elif template == 'pda-for-language':
        RP = tame_pda(rng)
        eps = rng.choice(['_', 'ε', 'e'])
        text, _, _ = txt.render_pda(RP, eps, layout(rng), rng)
        s['inputfile'] = write('p.pda', text)
        s['length'] = str(rng.choice([0, 1, 3, 4]))
        refs.update(pda=RP, eps=eps, length=int(s['length']))
    elif template == 'regexp-for-language':
        t = rxg.random_tree(rng, rng.randint(1, 5), 'ab', bias=rng.choice([None, 'star', 'unit']))
        while rx.size_iter(t) > 14:
            t = rxg.random_tree(rng, rng.randint(1, 4), 'ab')
        s['inputfile'] = write('r.regexp', txt.render_regexp_simple(t) + '\n')
        s['length'] = str(rng.choice([0, 1, 3, 4, 5]))
        refs.update(regexp=t, length=int(s['length']))
    elif template == 'tm-for-language':
        from vt.props.c11 import random_tm
        RT = random_tm(rng, rng.randint(1, 3), rng.randint(0, 1), rng.randint(1, 2), rng.choice(['_', '□']), p_def=rng.choice([0.6, 0.9]))
        text, _ = txt.render_tm(RT, layout(rng), rng)
        s['inputfile'] = write('t.tm', text)
        s['length'] = str(rng.choice([0, 1, 2, 3]))
        refs.update(tm=RT, length=int(s['length']))
    else:
        raise ValueError(template)
    return {'template': template, 'settings': s, 'refs': refs}


# ---------------------------------------------------------------- batch route
def to_batch(rng, inst, tmpdir, tag):
    """rewrites an instance for the generator's command line route: some settings become '%% key = value' header lines
    of the reference file, the others lines of a batch paragraph; values may be empty, the question refers to
    @language@.  Returns the settings the generator has to derive from it (own reading of the key = value format:
    value = rest of the line, stripped; paragraph lines win over header lines; @key@ replaced by that key's value)."""
    s = dict(inst['settings'])
    name = '%s_%s_batch' % (tag, inst['template'])
    s['language'] = rng.choice(['L', 'L_1', '\\lbrace a^n b^n \\mid n \\geq 0 \\rbrace'])
    question = rng.choice(['Give the answer for $@language@$.', 'Give the answer.', 'Describe @language@ over @alphabet@'])
    s['question'] = question
    for k in ('accepted', 'rejected'):
        if k not in s and rng.random() < 0.5:
            s[k] = ''                                    # nothing to accept / reject: a legal, empty list
    if rng.random() < 0.5:
        s['remark'] = rng.choice(['', 'no remark'])      # a key no template uses
    keys = [k for k in s if k not in ('templatefile', 'inputfile', 'inputfile1', 'inputfile2')]
    for k in ('length', 'states'):
        if s.get(k) == {'length': '8', 'states': '0'}[k] and rng.random() < 0.5:
            keys.remove(k)                               # left to the generator's default
    rng.shuffle(keys)
    in_file = [k for k in keys if 'inputfile' in s and rng.random() < 0.55]
    in_par = [k for k in keys if k not in in_file]
    both = [k for k in in_file if rng.random() < 0.15]   # given twice: the paragraph has priority

    def line(k, v, prefix):
        return '%s%s%s=%s%s%s' % (prefix, k, rng.choice(['', ' ', '  ']), rng.choice(['', ' ', '  ']) if v else rng.choice(['', ' ']), v, rng.choice(['', ' ', '']))
    expected = {'length': '8', 'states': '0'}
    if in_file:
        with open(s['inputfile'], encoding='utf8') as f:
            body = f.read()
        head = []
        for k in in_file:
            v = 'overridden' if k in both and k not in ('length', 'states') else s[k]
            head.append(line(k, v, rng.choice(['%% ', '%%', '%%  '])))
            expected[k] = v
        sep = rng.choice(['\n', '\n\n', '\n\n\n'])
        with open(s['inputfile'], 'w', encoding='utf8') as f:
            f.write('\n'.join(head) + sep + body)
        # header lines the renderer of the reference object wrote itself come later in the file: the last one counts
        for ln in body.split('\n'):
            m = re.search(r'%%\s*(\w+?)\s*=(.*)', ln)
            if m:
                expected[m.group(1)] = m.group(2).strip()
    par = []
    for k in in_par + both:
        par.append(line(k, s[k], rng.choice(['', '', '  '])))
        expected[k] = s[k]
    for k in ('templatefile', 'inputfile', 'inputfile1', 'inputfile2'):
        if k in s:
            par.insert(rng.randrange(len(par) + 1), line(k, s[k], ''))
            expected[k] = s[k]
    par.insert(rng.randrange(len(par) + 1), line('name', name, ''))
    expected['name'] = name
    text = '\n'.join(par)
    before = rng.choice(['', '% a comment\n', '\n'])
    after = rng.choice(['', '\n', '\n\n\n'])
    bf = os.path.join(tmpdir, '%s_batch.txt' % tag)
    with open(bf, 'w', encoding='utf8') as f:
        f.write(before + text + after)
    for k in list(expected):
        for k2 in ('language', 'alphabet'):
            if k != k2 and ('@%s@' % k2) in expected[k] and k2 in expected:
                expected[k] = expected[k].replace('@%s@' % k2, expected[k2])
    inst = dict(inst, settings=s, batch={'file': bf, 'name': name, 'paragraph': text, 'expected': expected})
    return inst


# ---------------------------------------------------------------- notebook route
def run_notebook(mk, inst, tmpdir, tag, with_answers=True):
    """real make_notebook on the real template, then exec of the produced code cells.
    returns (cells, error): cells = list of dict(source, stdout, is_check, exception)"""
    out = os.path.join(tmpdir, '%s_%s.ipynb' % (tag, inst['template']))
    buf0 = io.StringIO()
    if inst.get('batch') is not None:
        # the generator's own command line route: batch file -> read_paragraphs -> parse_paragraph -> make_notebook
        import sys
        b = inst['batch']
        out = os.path.join(tmpdir, b['name'] + '.ipynb')
        if os.path.exists(out):
            os.unlink(out)
        argv = sys.argv
        sys.argv = ['make_notebook.py', b['file'], '-o', tmpdir] + (['--with-answers'] if with_answers else [])
        try:
            with contextlib.redirect_stdout(buf0):
                mk.main()
        finally:
            sys.argv = argv
        if not os.path.exists(out):
            return [], buf0.getvalue() + '\nError: no notebook was written'
    else:
        settings = dict(mk.default_notebook_settings)
        settings.update(inst['settings'])
        with contextlib.redirect_stdout(buf0):
            mk.make_notebook(out, settings, with_answers)
    with open(out, encoding='utf8') as f:
        nb = json.load(f)
    ns = {'__name__': '__vt_notebook__'}
    cells = []
    for c in nb['cells']:
        if c['cell_type'] != 'code':
            continue
        src = ''.join(c['source'])
        if 'simulate_' in src:
            continue
        buf = io.StringIO()
        exc = None
        with contextlib.redirect_stdout(buf):
            try:
                exec(compile(src, '<cell>', 'exec'), ns)
            except Exception as e:
                exc = e
        is_check = any(re.match(r'^check_\w+\(', l.strip()) for l in src.split('\n'))
        cells.append({'source': src, 'stdout': buf.getvalue(), 'is_check': is_check, 'exception': exc})
    try:
        os.unlink(out)
    except OSError:
        pass
    return cells, buf0.getvalue()
