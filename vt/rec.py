"""Per-shard recorder: counters, distinct-case hashes, samples, violations, inconclusive cases."""
import collections
import hashlib
import json
import os
import signal
import sys
import time
import traceback


def jsonable(x):
    if isinstance(x, (str, int, float, bool)) or x is None:
        return x
    if isinstance(x, (list, tuple)):
        return [jsonable(e) for e in x]
    if isinstance(x, (set, frozenset)):
        return sorted((jsonable(e) for e in x), key=repr)
    if isinstance(x, dict):
        return {str(k): jsonable(v) for k, v in x.items()}
    return repr(x)


def tuplify(x):
    if isinstance(x, list):
        return tuple(tuplify(e) for e in x)
    if isinstance(x, dict):
        return {k: tuplify(v) for k, v in x.items()}
    return x


def h64(x):
    return hashlib.blake2b(repr(x).encode('utf8', 'surrogatepass'), digest_size=8).hexdigest()


class CaseTimeout(BaseException):
    """raised by the CPU-time watchdog inside a case (BaseException so that the
    `except Exception` clauses of the library's checkers do not swallow it)"""


class ShardDeadline(BaseException):
    """raised between two cases when this interpreter has used its share of the wall-clock budget: the rest of the workload is
    skipped and the results so far are reported (the run is then at best inconclusive, never 'held')"""


class Rec(object):
    MAX_WITNESS_PER_KEY = 5

    def __init__(self, prop, tier, seed, shard, nshards, hashseed):
        self.prop = prop
        self.tier = tier
        self.seed = seed
        self.shard = shard
        self.nshards = nshards
        self.hashseed = hashseed
        self.evaluations = 0
        self.counters = collections.Counter()
        self.classes = collections.Counter()       # histogram per input class
        self.hashes = set()                        # distinct non-trivial cases
        self.trivial = 0
        self.samples = []
        self.violations = []                       # witnesses (capped per key)
        self.vcount = collections.Counter()        # all violations per key
        self.inconclusive = collections.Counter()
        self.monitors = collections.Counter()      # evaluations per monitor / contract
        self.schedules = {}                        # iso-class -> set of choice-sequence hashes
        self.extra = {}
        self.case = None                           # current case (for witnesses)
        self.t0 = time.time()

    # -- bookkeeping -----------------------------------------------------
    def ev(self, monitor, n=1):
        self.evaluations += n
        self.monitors[monitor] += n

    def maybe_flush(self, every=20.0):
        """writes the results so far to <flush_path> (atomically), at most every `every` seconds: if the wall-clock watchdog has
        to kill this interpreter, what its monitors had observed until then is not lost"""
        path = getattr(self, 'flush_path', None)
        if not path:
            return
        now = time.time()
        if now - getattr(self, '_last_flush', 0.0) < every:
            return
        self._last_flush = now
        try:
            d = self.dump()
            d['harness_error'] = None
            d['partial'] = True
            tmp = path + '.tmp'
            with open(tmp, 'w') as f:
                json.dump(d, f)
            os.replace(tmp, path)
        except Exception:
            pass

    def note_case(self, case, cls, nontrivial, sample_every=0):
        self.maybe_flush()
        dl = getattr(self, 'deadline', None)
        if dl is not None and time.time() > dl:
            raise ShardDeadline()
        self.case = case
        self.classes[cls] += 1
        if nontrivial:
            self.hashes.add(h64(jsonable(case)))
        else:
            self.trivial += 1
        if len(self.samples) < 4 and (nontrivial or not self.samples):
            if not any(s.get('class') == cls for s in self.samples):
                self.samples.append({'class': cls, 'case': jsonable(case)})

    def schedule(self, iso_key, choice_seq):
        self.schedules.setdefault(iso_key, set()).add(h64(choice_seq))

    def violation(self, key, what, **details):
        """key: mechanism key (stable, names WHAT fails, never random values)"""
        self.vcount[key] += 1
        if sum(1 for v in self.violations if v['key'] == key) < self.MAX_WITNESS_PER_KEY:
            w = {'property': self.prop, 'key': key, 'what': what, 'case': jsonable(self.case),
                 'hashseed': self.hashseed, 'seed': self.seed, 'tier': self.tier, 'shard': self.shard}
            w.update({k: jsonable(v) for k, v in details.items()})
            self.violations.append(w)

    def inconc(self, why, n=1):
        self.inconclusive[why] += n

    def dump(self):
        return {
            'prop': self.prop, 'shard': self.shard, 'hashseed': self.hashseed,
            'evaluations': self.evaluations, 'counters': dict(self.counters), 'classes': dict(self.classes),
            'hashes': sorted(self.hashes), 'trivial': self.trivial, 'samples': self.samples,
            'violations': self.violations, 'vcount': dict(self.vcount),
            'inconclusive': dict(self.inconclusive), 'monitors': dict(self.monitors),
            'schedules': {k: sorted(v) for k, v in self.schedules.items()},
            'extra': jsonable(self.extra), 'wall_s': time.time() - self.t0,
        }


# ---------------------------------------------------------------------- CPU watchdog
class cpu_guard(object):
    """Bounds the CPU time (ITIMER_VIRTUAL, i.e. not wall clock) of one library call.  The
    limit is generous (>= 10^3 x a normal case); on expiry CaseTimeout is raised."""

    def __init__(self, seconds):
        self.seconds = seconds

    def _fire(self, signum, frame):
        raise CaseTimeout()

    def __enter__(self):
        self.old = signal.signal(signal.SIGVTALRM, self._fire)
        signal.setitimer(signal.ITIMER_VIRTUAL, self.seconds)
        return self

    def __exit__(self, et, ev, tb):
        signal.setitimer(signal.ITIMER_VIRTUAL, 0)
        signal.signal(signal.SIGVTALRM, self.old)
        return False


def short_tb(e, limit=3):
    tb = traceback.extract_tb(e.__traceback__)
    fr = [f for f in tb if 'gambatools' in f.filename or 'make_notebook' in f.filename]
    fr = fr[-limit:]
    return ['%s:%d %s' % (os.path.basename(f.filename), f.lineno, f.name) for f in fr]


def exc_site(e):
    """innermost library function an exception escaped from (used in mechanism keys)"""
    tb = traceback.extract_tb(e.__traceback__)
    fr = [f for f in tb if 'gambatools' in f.filename or 'make_notebook' in f.filename]
    return fr[-1].name if fr else '?'
