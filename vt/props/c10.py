"""C10 - PDA normal forms and PDA -> CFG preserve the language; input not modified."""
from vt.props import common
from vt.props.common import call, report_failure, selfcheck
from vt import adapt, env
from vt.ref import pd, cf, fa
from vt.gen import pdag
from vt.mon import contracts

PROP = 'C10'
TITLE = 'PDA normal forms and PDA -> CFG'
SHARDS = {'quick': 16, 'thorough': 32}
TIMEOUT = {'quick': 420, 'thorough': 3600}
REQUIRED = ['pda_to_one_accepting_state_in_place', 'pda_to_push_pop', 'pda_to_accept_on_empty_stack', 'pda_to_cfg', 'pda_to_cfg(accepts_on_empty_stack=True)']
EXHAUSTIVE_NOTE = 'no complete sub-space: PDAs are sampled (seeded random + named families + shipped examples)'
RULE = ('cases are PDAs: seeded random (<=4 states, <=2 input, <=3 stack symbols, <=8 moves of kinds push/pop/replace/no-op, 0..3 accepting states), named families '
        '(acceptance with symbols left on the stack, several/no accepting states with outgoing moves, replace and no-op moves, stack alphabets containing $, all of $@#*&!?, '
        'the symbol the push/pop construction wants, helper state names), the shipped PDAs, random state renamings. Languages are compared on ALL words up to n '
        '(4 quick / 5 thorough) with EXACT references on both sides (PDA saturation oracle; CFG fixpoint oracle for the grammar) - bounded, as the property states. '
        'pda_to_cfg is also called with accepts_on_empty_stack=True on every PDA whose language by final state equals, on all words up to n, its language by final state AND empty stack '
        '(both decided exactly by saturation; the second oracle is cross-checked against a bounded BFS), plus a family of PDAs that accept on empty stack by construction. '
        'distinct = the PDA; non-trivial = it has a stack-touching move and a language up to n that is neither empty nor everything')
ASSUMPTIONS = [
    'PDA languages by the exact saturation oracle, grammar language by the fixpoint oracle; comparison bounded to words of length <= n',
    '"accepts only with an empty stack" is checked on the result automaton: every move into its accepting state pops a symbol that only its new initial move pushes',
]

_REC = None
_N = 4


def lang(RP):
    return pd.language_upto(RP, _N)


def compare(rec, name, L0, L1, before, after_desc):
    if L0 != L1:
        extra = sorted(L1 - L0, key=lambda w: (len(w), w))[:3]
        missing = sorted(L0 - L1, key=lambda w: (len(w), w))[:3]
        key = name + ':language_differs'
        rec.violation(key, 'the result of %s has a different language' % name, pda=before, result=after_desc, extra=extra, missing=missing)
        return False
    return True


def valid_pda(rec, name, P):
    from gambatools.pda import PDA
    if not isinstance(P, PDA):
        rec.violation(name + ':not_a_pda', '%s did not return a PDA' % name)
        return None
    R = adapt.pda_ref(P)
    if not pd.well_formed(R) or P.epsilon in P.Sigma or P.epsilon in P.Gamma:
        rec.violation(name + ':invalid', 'the result of %s is not a valid PDA' % name, result=R)
        return None
    return R


def snap(P):
    return adapt.pda_ref(P)


def post_one_accepting(P, result, OLD):
    rec = _REC
    name = 'pda_to_one_accepting_state_in_place'
    rec.ev(name)
    R = valid_pda(rec, name, P)
    if R is None:
        return True
    if len(R[5]) != 1:
        rec.violation(name + ':not_one_accepting_state', 'after %s the automaton has %d accepting states' % (name, len(R[5])))
    compare(rec, name, lang(OLD.pre), lang(R), OLD.pre, R)
    return True


def post_push_pop(P, result, OLD):
    rec = _REC
    name = 'pda_to_push_pop'
    rec.ev(name)
    if adapt.pda_ref(P) != OLD.pre:
        rec.violation(name + ':input_changed', '%s changed its argument' % name)
    R = valid_pda(rec, name, result)
    if R is None:
        return True
    if not pd.is_push_pop(R):
        rec.violation(name + ':not_push_pop', 'the result still has a move that is neither a push nor a pop', result=R)
    compare(rec, name, lang(OLD.pre), lang(R), OLD.pre, R)
    return True


def post_empty_stack(P, result, OLD):
    rec = _REC
    name = 'pda_to_accept_on_empty_stack'
    rec.ev(name)
    if adapt.pda_ref(P) != OLD.pre:
        rec.violation(name + ':input_changed', '%s changed its argument' % name)
    R = valid_pda(rec, name, result)
    if R is None:
        return True
    if compare(rec, name, lang(OLD.pre), lang(R), OLD.pre, R):
        # accepts ONLY with an empty stack: no accepting configuration with a non-empty stack is reachable
        # on the explored words (configuration BFS with a generous stack cap)
        for w in sorted(lang(R), key=lambda w: (len(w), w))[:6]:
            bad = nonempty_accepting_config(R, w, 8)
            if bad:
                rec.violation(name + ':accepts_with_nonempty_stack', 'the result reaches its accepting state with a non-empty stack', word=w, config=bad, result=R)
                break
    return True


def nonempty_accepting_config(RP, w, cap):
    from collections import deque
    Q, Sigma, Gamma, T, q0, F = RP
    Fs = set(F)
    by = {}
    for m in T:
        by.setdefault(m[0], []).append(m)
    start = (q0, 0, ())
    seen = {start}
    dq = deque([start])
    n = len(w)
    while dq and len(seen) < 50000:
        (p, i, st) = dq.popleft()
        if i == n and p in Fs and st:
            return (p, list(st))
        for (_, a, u, q, v) in by.get(p, ()):
            if a is None:
                j = i
            elif i < n and w[i] == a:
                j = i + 1
            else:
                continue
            s1 = st
            if u is not None:
                if not s1 or s1[-1] != u:
                    continue
                s1 = s1[:-1]
            if v is not None:
                s1 = s1 + (v,)
            if len(s1) > cap:
                continue
            c = (q, j, s1)
            if c not in seen:
                seen.add(c)
                dq.append(c)
    return None


def post_pda_to_cfg(P, accepts_on_empty_stack, result, OLD):
    rec = _REC
    name = 'pda_to_cfg'
    rec.ev(name)
    from gambatools.cfg import CFG
    if adapt.pda_ref(P) != OLD.pre:
        rec.violation(name + ':input_changed', 'pda_to_cfg changed its argument')
    if accepts_on_empty_stack and not _FLAG_IN_DOMAIN.get('ok'):
        return True
    if not isinstance(result, CFG):
        rec.violation(name + ':not_a_cfg', 'pda_to_cfg returned %r' % (result,))
        return True
    RG = adapt.cfg_ref(result)
    if not cf.well_formed(RG):
        rec.violation(name + ':invalid_grammar', 'pda_to_cfg returned a grammar with undeclared symbols')
        return True
    L0 = lang(OLD.pre)
    L1 = cf.language_upto(RG, _N)
    if accepts_on_empty_stack:
        rec.ev('pda_to_cfg(accepts_on_empty_stack=True)')
    if L0 != L1:
        extra = sorted(L1 - L0, key=lambda w: (len(w), w))[:3]
        missing = sorted(L0 - L1, key=lambda w: (len(w), w))[:3]
        rec.violation(name + ':language_differs' + (':accepts_on_empty_stack' if accepts_on_empty_stack else ''), 'the grammar built from a PDA generates a different language',
                      pda=OLD.pre, extra=extra, missing=missing, accepts_on_empty_stack=bool(accepts_on_empty_stack))
    return True


# set by check_case around a call with accepts_on_empty_stack=True: the operand is inside the flag's domain (on all words up to
# the bound its language by final state equals its language by final state AND empty stack)
_FLAG_IN_DOMAIN = {}


def empty_stack_bfs(RP, w, cap=6, max_configs=20000):
    """independent bounded search: True if a configuration (final state, whole word read, EMPTY stack) is reachable with stack
    height <= cap; None if not found within the bounds"""
    from collections import deque
    Q, Sigma, Gamma, T, q0, F = RP
    by = {}
    for m in T:
        by.setdefault(m[0], []).append(m)
    start = (q0, 0, ())
    seen = {start}
    dq = deque([start])
    n = len(w)
    pruned = False
    while dq and len(seen) < max_configs:
        (p, i, st) = dq.popleft()
        if i == n and p in set(F) and not st:
            return True
        for (_, a, u, q, v) in by.get(p, ()):
            if a is None:
                j = i
            elif i < n and w[i] == a:
                j = i + 1
            else:
                continue
            s1 = st
            if u is not None:
                if not s1 or s1[-1] != u:
                    continue
                s1 = s1[:-1]
            if v is not None:
                s1 = s1 + (v,)
            if len(s1) > cap:
                pruned = True          # a computation through a higher stack was not followed: 'not found' is then no answer
                continue
            c = (q, j, s1)
            if c not in seen:
                seen.add(c)
                dq.append(c)
    return None if (dq or pruned) else False


def install(rec):
    global _REC
    _REC = rec
    contracts.import_all()
    m = 'gambatools.pda_algorithms'
    contracts.install(m, 'pda_to_one_accepting_state_in_place', post=post_one_accepting, snapshot=snap)
    contracts.install(m, 'pda_to_push_pop', post=post_push_pop, snapshot=snap)
    contracts.install(m, 'pda_to_accept_on_empty_stack', post=post_empty_stack, snapshot=snap)
    contracts.install(m, 'pda_to_cfg', post=post_pda_to_cfg, snapshot=snap)


def check_case(rec, case):
    global _N
    import gambatools.pda_algorithms as pa
    RP = case['ref']
    _N = case['n']
    L = lang(RP)
    nwords = sum(len(RP[1]) ** k for k in range(_N + 1))
    has_stack = any(u is not None or v is not None for (_, _, u, _, v) in RP[3])
    rec.note_case(case, case['cls'], has_stack and 0 < len(L) < nwords)
    for w in sorted(L)[:4]:
        b = pd.accepts_capped(RP, w, 8, 20000)
        if b is not None:
            rec.counters['oracle_B_confirms' if b else 'oracle_B_undetermined'] += 1
    eps = case.get('eps', '')

    def P():
        return adapt.build_pda(RP, eps, scramble=case.get('scr'))
    for name in ('pda_to_one_accepting_state_in_place', 'pda_to_push_pop', 'pda_to_accept_on_empty_stack', 'pda_to_cfg'):
        o = call(P)
        if not o.ok:
            rec.inconc('cannot build PDA')
            return
        o = call(getattr(pa, name), o.value)
        if not o.ok:
            report_failure(rec, o, name, pda=RP)
    # the same constructions with the library's global logging switch on (round 14, C10_l: a trace block that consumes a generator the
    # result is built from); the contracts judge these calls like any other, the trace output is swallowed
    if case.get('logging', True):
        from gambatools.global_settings import GambaTools
        old_log = GambaTools.enable_logging
        try:
            GambaTools.enable_logging = True
            for name in ('pda_to_one_accepting_state_in_place', 'pda_to_push_pop', 'pda_to_accept_on_empty_stack', 'pda_to_cfg'):
                o = call(P)
                if not o.ok:
                    break
                with common.captured():
                    o = call(getattr(pa, name), o.value)
                rec.counters['calls_with_logging_on'] += 1
                if not o.ok:
                    report_failure(rec, o, name, pda=RP, logging=True)
        finally:
            GambaTools.enable_logging = old_log
    # the same OBJECT through the copying constructions, changed in place, and through them again
    if len(RP[0]) >= 2 and case['cls'].startswith('random'):
        o = call(P)
        if o.ok:
            P0 = o.value
            for round_ in (0, 1):
                for name in ('pda_to_push_pop', 'pda_to_accept_on_empty_stack', 'pda_to_cfg'):
                    o = call(getattr(pa, name), P0)
                    if not o.ok:
                        report_failure(rec, o, name, pda=adapt.pda_ref(P0), after_in_place_change=bool(round_))
                if round_ == 0 and not common.mutate_in_place(P0, repr(RP)):
                    break
                rec.counters['requery_after_in_place_change'] += 1 - round_
    # the conversion with accepts_on_empty_stack=True, for operands that do accept on empty stack (on every word up to the bound
    # acceptance by final state and acceptance by final state AND empty stack coincide; both decided exactly by saturation)
    Lfe = pd.language_upto_empty_stack(RP, _N)
    for w in sorted(L | Lfe)[:6]:
        b = empty_stack_bfs(RP, w)
        if b is not None:
            selfcheck(rec, b == (w in Lfe), {'oracle': 'empty-stack acceptance', 'pda': RP, 'word': w, 'saturation': w in Lfe, 'bfs': b})
    if Lfe == L:
        rec.counters['accepts_on_empty_stack_in_domain' + ('_with_stack_moves' if has_stack and L else '')] += 1
        o = call(P)
        if o.ok:
            _FLAG_IN_DOMAIN['ok'] = True
            try:
                o = call(pa.pda_to_cfg, o.value, True)
            finally:
                _FLAG_IN_DOMAIN['ok'] = False
            if not o.ok:
                report_failure(rec, o, 'pda_to_cfg', pda=RP, accepts_on_empty_stack=True)


def gen_cases(rec, rng, tier):
    thorough = tier == 'thorough'
    n = 5 if thorough else 4
    fam = list(pdag.hostile_pdas())
    for i, (cls, RP) in enumerate(fam):
        if i % 4 == rec.shard % 4:
            yield {'cls': cls, 'ref': RP, 'n': n, 'eps': ('', '_', 'ε')[i % 3]}
    if rec.shard == 1:
        for (name, RP, eps) in pdag.shipped_pdas(env.REPO):
            yield {'cls': 'shipped_' + name, 'ref': RP, 'n': 4, 'eps': eps}
    # many no-op / replace moves: the push/pop normal form needs 11 and more intermediate states
    for nt in ((11, 12, 13, 16, 20, 24) if thorough else (12, 13)):
        if rec.shard % 2 == nt % 2:
            yield {'cls': 'many_noop_and_replace_moves', 'ref': pdag.many_moves_pda(rng, nt), 'n': 3, 'eps': rng.choice(['', '_'])}
    for _ in range(600 if thorough else 70):
        gamma = rng.choice([None, None, '$X', '$@#', 'XY∅'[:rng.randint(1, 3)]])
        RP = pdag.random_pda(rng, rng.randint(1, 4), rng.randint(1, 2), rng.randint(0, 3), rng.randint(1, 8), gamma=gamma, p_eps=rng.choice([0.15, 0.35, 0.6]))
        yield {'cls': 'random_pda' + ('' if gamma is None else '_marker_symbols'), 'ref': RP, 'n': n, 'eps': rng.choice(['', '_', 'ε'])}
        RPc = pdag.colliding_names(rng, RP)
        if RPc is not None:
            yield {'cls': 'colliding_state_and_stack_names', 'ref': RPc, 'n': n, 'eps': ''}
        RPm = pdag.multichar_stack_symbols(rng, RP)
        if RPm is not None:
            yield {'cls': 'multichar_stack_symbols', 'ref': RPm, 'n': n, 'eps': ''}
        RPg = pdag.helper_names_with_gaps(rng, RP)
        if RPg is not None:
            yield {'cls': 'helper_state_names_with_gaps', 'ref': RPg, 'n': n, 'eps': ''}
        RPx = pdag.exotic_names(rng, RP, allow_quote=False)     # the grammar's variable names are built as p'q
        if RPx is not None:
            yield {'cls': 'exotic_state_names', 'ref': RPx, 'n': n, 'eps': ''}
        RPe = pdag.empty_stack_acceptor(rng)
        yield {'cls': 'accepts_on_empty_stack', 'ref': RPe, 'n': n, 'eps': rng.choice(['', '_'])}
        if rng.random() < 0.4:
            names = ['q_accept1', 'q_initial1', 'M1', 'M2', 'q_accept2'][:len(RP[0])]
            rng.shuffle(names)
            yield {'cls': 'random_pda_helper_names', 'ref': pdag.rename(RP, dict(zip(RP[0], names))), 'n': n, 'eps': ''}


def run(rec, rng, tier):
    install(rec)
    rc = common.replay_case()
    if rc is not None:
        check_case(rec, rc)
        return
    for case in gen_cases(rec, rng, tier):
        check_case(rec, common.with_scramble(case))
