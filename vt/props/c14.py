"""C14 - DFA closure constructions and the finite-language helpers."""
import itertools

from vt.props import common
from vt.props.common import call, report_failure, selfcheck
from vt import adapt
from vt.ref import fa
from vt.gen import fag
from vt.mon import contracts

PROP = 'C14'
TITLE = 'DFA closure constructions and finite-language helpers'
SHARDS = {'quick': 8, 'thorough': 32}
TIMEOUT = {'quick': 420, 'thorough': 3000}
REQUIRED = ['dfa_union', 'dfa_intersection', 'dfa_symmetric_difference', 'dfa_complement', 'dfa_reverse', 'dfa_no_prefix', 'dfa_no_extend',
            'dfa_remove_unreachable_states', 'dfa_make_total', 'dfa_make_total_in_place', 'language_reverse', 'language_no_prefix',
            'language_no_extend', 'concatenation', 'words_up_to_n']
EXHAUSTIVE_NOTE = ('all ordered pairs of total DFAs with <=2 states over a common alphabet of <=2 symbols (products), all total DFAs with <=3 states '
                   '(unary constructions), all finite languages with <=6 words inside {a,b}^<=3 (helpers)')
RULE = ('automata cases: enumerated pairs / single DFAs, seeded random DFAs <=5 (pairs) and <=7 (unary) states, hostile families, partial DFAs built with '
        'check_validity=False for totalisation; every result is compared EXACTLY (product BFS, all word lengths) with an independent reference construction. '
        'language cases: enumerated + random finite languages compared with set comprehensions transcribed from the docstrings. '
        'distinct = canonical hash of the operands; non-trivial = no operand language is empty or universal (automata) / the language has >=2 words (helpers)')
ASSUMPTIONS = [
    'reference constructions: product, complement, reverse-then-determinise, cut-after-accept, cannot-reach-F-again; exact equivalence by product BFS',
    'DFAs over a common alphabet (the library asserts Sigma1 == Sigma2)',
]

_REC = None


def _valid_dfa(rec, name, X):
    from gambatools.dfa import DFA
    if not isinstance(X, DFA):
        rec.violation(name + ':not_a_dfa', '%s did not return a DFA' % name)
        return None
    R = adapt.dfa_ref(X)
    if not fa.well_formed(R) or not fa.is_total_dfa(R):
        rec.violation(name + ':invalid_or_partial', 'result of %s is not a valid total DFA' % name, result=R)
        return None
    return R


def _valid_nfa(rec, name, X):
    from gambatools.nfa import NFA
    if not isinstance(X, NFA):
        rec.violation(name + ':not_an_nfa', '%s did not return an NFA' % name)
        return None
    R = adapt.nfa_ref(X)
    if not fa.well_formed(R) or X.epsilon in X.Sigma:
        rec.violation(name + ':invalid', 'result of %s is not a valid NFA' % name, result=R)
        return None
    return R


def _same_language(rec, name, Rres, Rexp, Sigma, opname):
    w = fa.dfa_distinguish(fa.determinize(Rres)[0], fa.determinize(Rexp)[0], tuple(Sigma))
    if w is not None:
        rec.violation(name + ':language_differs', 'language of the result of %s is not the %s of the operand languages' % (name, opname),
                      word=w, in_result=fa.accepts_graph(Rres, w), in_expected=fa.accepts_graph(Rexp, w))
        return False
    return True


def mk_product_post(name, mode):
    def post(D1, D2, result):
        _REC.ev(name)
        R = _valid_dfa(_REC, name, result)
        if R is None:
            return True
        R1, R2 = adapt.dfa_ref(D1), adapt.dfa_ref(D2)
        if set(R[1]) != set(R1[1]):
            _REC.violation(name + ':alphabet_changed', 'result of %s has a different alphabet' % name)
            return True
        _same_language(_REC, name, R, fa.r_product(R1, R2, mode), R1[1], mode.replace('_', ' '))
        return True
    post.__name__ = 'post_' + name
    return post


def post_dfa_complement(D, result):
    _REC.ev('dfa_complement')
    R = _valid_dfa(_REC, 'dfa_complement', result)
    if R is not None:
        R1 = adapt.dfa_ref(D)
        if set(R[1]) != set(R1[1]):
            _REC.violation('dfa_complement:alphabet_changed', 'result of dfa_complement has a different alphabet')
        else:
            _same_language(_REC, 'dfa_complement', R, fa.r_complement(R1), R1[1], 'complement')
    return True


def post_dfa_reverse(D, result):
    _REC.ev('dfa_reverse')
    R = _valid_nfa(_REC, 'dfa_reverse', result)
    if R is not None:
        R1 = adapt.dfa_ref(D)
        if set(R[1]) != set(R1[1]):
            _REC.violation('dfa_reverse:alphabet_changed', 'result of dfa_reverse has a different alphabet')
        else:
            _same_language(_REC, 'dfa_reverse', R, fa.r_reverse(R1), R1[1], 'mirror image')
    return True


def post_dfa_no_prefix(D, result):
    _REC.ev('dfa_no_prefix')
    R = _valid_nfa(_REC, 'dfa_no_prefix', result)
    if R is not None:
        R1 = adapt.dfa_ref(D)
        _same_language(_REC, 'dfa_no_prefix', R, fa.r_no_prefix(R1), R1[1], 'prefix-free part')
    return True


def post_dfa_no_extend(D, result):
    _REC.ev('dfa_no_extend')
    R = _valid_dfa(_REC, 'dfa_no_extend', result)
    if R is not None:
        R1 = adapt.dfa_ref(D)
        _same_language(_REC, 'dfa_no_extend', R, fa.r_no_extend(R1), R1[1], 'non-extendable part')
    return True


def post_dfa_remove_unreachable_states(D, result):
    _REC.ev('dfa_remove_unreachable_states')
    R = _valid_dfa(_REC, 'dfa_remove_unreachable_states', result)
    if R is not None:
        R1 = adapt.dfa_ref(D)
        if _same_language(_REC, 'dfa_remove_unreachable_states', R, R1, R1[1], 'unchanged language'):
            un = set(R[0]) - fa.reachable(R)
            if un:
                _REC.violation('dfa_remove_unreachable_states:still_unreachable', 'the result still has unreachable states', states=sorted(un))
    return True


def snap_total(D):
    return adapt.dfa_ref(D)


def post_dfa_make_total(D, result, OLD):
    _REC.ev('dfa_make_total')
    R = _valid_dfa(_REC, 'dfa_make_total', result)
    if R is not None:
        _same_language(_REC, 'dfa_make_total', R, OLD.pre, OLD.pre[1], 'unchanged language')
    if adapt.dfa_ref(D) != OLD.pre:
        _REC.violation('dfa_make_total:input_changed', 'dfa_make_total changed its argument')
    return True


def post_dfa_make_total_in_place(D, result, OLD):
    _REC.ev('dfa_make_total_in_place')
    R = adapt.dfa_ref(D)
    if not fa.well_formed(R) or not fa.is_total_dfa(R):
        _REC.violation('dfa_make_total_in_place:invalid_or_partial', 'after dfa_make_total_in_place the DFA is not valid and total', result=R)
    else:
        _same_language(_REC, 'dfa_make_total_in_place', R, OLD.pre, OLD.pre[1], 'unchanged language')
    return True


def install(rec):
    global _REC
    _REC = rec
    contracts.import_all()
    m = 'gambatools.dfa_algorithms'
    contracts.install(m, 'dfa_union', post=mk_product_post('dfa_union', 'union'))
    contracts.install(m, 'dfa_intersection', post=mk_product_post('dfa_intersection', 'intersection'))
    contracts.install(m, 'dfa_symmetric_difference', post=mk_product_post('dfa_symmetric_difference', 'symmetric_difference'))
    contracts.install(m, 'dfa_complement', post=post_dfa_complement)
    contracts.install(m, 'dfa_reverse', post=post_dfa_reverse)
    contracts.install(m, 'dfa_no_prefix', post=post_dfa_no_prefix)
    contracts.install(m, 'dfa_no_extend', post=post_dfa_no_extend)
    contracts.install(m, 'dfa_remove_unreachable_states', post=post_dfa_remove_unreachable_states)
    contracts.install(m, 'dfa_make_total', post=post_dfa_make_total, snapshot=snap_total)
    contracts.install(m, 'dfa_make_total_in_place', post=post_dfa_make_total_in_place, snapshot=snap_total)


# ---------------------------------------------------------------- cases
def nontriv_lang(R):
    RD = fa.determinize(R)[0]
    return len(RD[4]) > 0 and fa.mn_count(RD, RD[0]) > 1


def check_case(rec, case):
    import gambatools.dfa_algorithms as da
    import gambatools.language_algorithms as la
    kind = case['kind']
    if kind == 'pair':
        R1, R2 = case['ref1'], case['ref2']
        rec.note_case(case, case['cls'], nontriv_lang(R1) and nontriv_lang(R2))
        for name in ('dfa_union', 'dfa_intersection', 'dfa_symmetric_difference'):
            scr = case.get('scr')
            D1, D2 = adapt.build_dfa(R1, scramble=scr), adapt.build_dfa(R2, scramble=None if scr is None else scr + 1)
            o = call(getattr(da, name), D1, D2)
            if not o.ok:
                report_failure(rec, o, name)
        # reference self-check: union via De Morgan
        U = fa.r_product(R1, R2, 'union')
        I = fa.r_product(fa.r_complement(R1), fa.r_complement(R2), 'intersection')
        selfcheck(rec, fa.dfa_distinguish(U, fa.r_complement(I), R1[1]) is None)
    elif kind == 'unary':
        R = case['ref']
        rec.note_case(case, case['cls'], nontriv_lang(R))
        big = len(R[0]) > 12       # judging a reversed automaton needs a subset construction: exponential, small operands only
        for name in ('dfa_complement', 'dfa_reverse', 'dfa_no_prefix', 'dfa_no_extend', 'dfa_remove_unreachable_states', 'dfa_make_total', 'dfa_make_total_in_place'):
            if big and name == 'dfa_reverse':
                continue
            D = adapt.build_dfa(R, scramble=case.get('scr'))
            o = call(getattr(da, name), D)
            if not o.ok:
                report_failure(rec, o, name)
        if case.get('scr') is not None or len(R[0]) >= 4:
            # the same OBJECT through all constructions, changed in place, and through all of them again (each call is judged
            # against the content of its operand at the time of the call)
            D = adapt.build_dfa(R, scramble=case.get('scr'))
            for round_ in (0, 1):
                for name in ('dfa_complement', 'dfa_reverse', 'dfa_no_prefix', 'dfa_no_extend', 'dfa_remove_unreachable_states', 'dfa_make_total'):
                    if len(R[0]) > 12 and name == 'dfa_reverse':
                        continue
                    o = call(getattr(da, name), D)
                    if not o.ok:
                        report_failure(rec, o, name, after_in_place_change=bool(round_))
                if round_ == 0 and not common.mutate_in_place(D, repr(R)):
                    break
                rec.counters['requery_after_in_place_change'] += round_
        if len(R[0]) > 8 or len(R[1]) > 3:
            return                     # the bounded-word self-checks below enumerate all words up to 4 + |Q| letters: small operands only
        # reference self-check on bounded words: definitions of prefix-free / non-extendable parts
        L = fa.language_upto(R, 4)
        np_ = fa.language_upto(fa.r_no_prefix(R), 4)
        selfcheck(rec, np_ == frozenset(w for w in L if not any(w[:i] in L for i in range(len(w)))))
        L6 = fa.language_upto(R, 4 + len(R[0]))
        ne = fa.language_upto(fa.r_no_extend(R), 4)
        selfcheck(rec, ne == frozenset(w for w in L if not any(v.startswith(w) and v != w for v in L6)))
        rv = fa.language_upto(fa.r_reverse(R), 4)
        selfcheck(rec, rv == frozenset(w[::-1] for w in L))
    elif kind == 'restrict':
        R = case['ref']
        rec.note_case(case, case['cls'], nontriv_lang(R))
        for name in ('dfa_no_prefix', 'dfa_no_extend', 'dfa_remove_unreachable_states', 'dfa_reverse'):
            o = call(getattr(da, name), adapt.build_dfa(R, scramble=case.get('scr')))
            if not o.ok:
                report_failure(rec, o, name)
    elif kind == 'partial':
        R = case['ref']
        rec.note_case(case, case['cls'], nontriv_lang(R))
        for name in ('dfa_make_total', 'dfa_make_total_in_place'):
            D = adapt.build_dfa(R, check_validity=False)
            o = call(getattr(da, name), D)
            if not o.ok:
                report_failure(rec, o, name)
    elif kind == 'lang':
        L = set(case['L'])
        L2 = set(case.get('L2', ()))
        rec.note_case(case, case['cls'], len(L) >= 2)
        chk = [
            ('language_reverse', la.language_reverse, (set(L),), {w[::-1] for w in L}),
            ('language_no_prefix', la.language_no_prefix, (set(L),), {w for w in L if not any(w[:i] in L for i in range(len(w)))}),
            ('language_no_extend', la.language_no_extend, (set(L),), {w for w in L if not any(v != w and v[:len(w)] == w for v in L)}),
            ('concatenation', la.concatenation, (set(L), set(L2)), {x + y for x in L for y in L2}),
            ('union', la.union, (set(L), set(L2)), L | L2),
            ('intersection', la.intersection, (set(L), set(L2)), L & L2),
            ('symmetric_difference', la.symmetric_difference, (set(L), set(L2)), (L - L2) | (L2 - L)),
        ]
        for (name, fn, args, exp) in chk:
            o = call(fn, *args)
            rec.ev(name)
            if not o.ok:
                report_failure(rec, o, name)
            elif not isinstance(o.value, (set, frozenset)) or set(o.value) != exp:
                rec.violation(name + ':wrong_set', '%s does not compute the documented set operation' % name, args=[sorted(a) for a in args],
                              expected=sorted(exp), observed=sorted(o.value) if isinstance(o.value, (set, frozenset)) else repr(o.value))
    elif kind == 'words':
        S = set(case['Sigma'])
        n = case['n']
        rec.note_case(case, case['cls'], len(S) >= 1 and n >= 1)
        exp = set(fa.words_upto(S, n))
        o = call(la.words_up_to_n, set(S), n)
        rec.ev('words_up_to_n')
        if not o.ok:
            report_failure(rec, o, 'words_up_to_n')
        elif set(o.value) != exp:
            rec.violation('words_up_to_n:wrong_set', 'words_up_to_n is not the set of all words of length <= n', Sigma=sorted(S), n=n)
        o = call(la.words_of_length_n, set(S), n)
        rec.ev('words_of_length_n')
        if not o.ok:
            report_failure(rec, o, 'words_of_length_n')
        elif set(o.value) != {w for w in exp if len(w) == n}:
            rec.violation('words_of_length_n:wrong_set', 'words_of_length_n is not the set of all words of length n', Sigma=sorted(S), n=n)


def make_partial(rng, R, drop):
    T = [t for t in R[2] if rng.random() >= drop]
    return (R[0], R[1], tuple(T), R[3], R[4])


def gen_cases(rec, rng, tier):
    thorough = tier == 'thorough'
    small = {}
    for R in fag.enum_dfas(2, 2):
        small.setdefault(R[1], []).append(R)
    pairs = ((R1, R2) for S in sorted(small) for R1 in small[S] for R2 in small[S])
    for (R1, R2) in common.shard_slice(pairs, rec):
        yield {'kind': 'pair', 'cls': 'enum_pair', 'ref1': R1, 'ref2': R2}
    for R in common.shard_slice(fag.enum_dfas(3, 2), rec):
        yield {'kind': 'unary', 'cls': 'enum_dfa', 'ref': R}
    for (cls, R) in fag.hostile_dfas(rng):
        yield {'kind': 'unary', 'cls': 'hostile_' + cls, 'ref': R}
        yield {'kind': 'pair', 'cls': 'hostile_pair_' + cls, 'ref1': R, 'ref2': fag.random_dfa(rng, rng.randint(1, 4), len(R[1]), names=fag.random_names(rng, 4, exotic=True)[:rng.randint(1, 4)]) if len(R[1]) else R}
    for _ in range(400 if thorough else 100):
        k = rng.randint(1, 3)
        n1, n2 = rng.randint(1, 5), rng.randint(1, 5)
        R1 = fag.random_dfa(rng, n1, k, names=rng.choice([None, fag.random_names(rng, n1, exotic=True)]))
        R2 = fag.random_dfa(rng, n2, k, names=rng.choice([None, fag.random_names(rng, n2, exotic=True)]))
        yield {'kind': 'pair', 'cls': 'random_pair', 'ref1': R1, 'ref2': R2}
    for _ in range(400 if thorough else 100):
        k = rng.randint(1, 3)
        n = rng.randint(1, 7)
        R = fag.random_dfa(rng, n, k, names=rng.choice([None, fag.random_names(rng, n, exotic=True)]), p_final=rng.choice([0.15, 0.4, 0.8]))
        yield {'kind': 'unary', 'cls': 'random_dfa', 'ref': R}
        yield {'kind': 'partial', 'cls': 'partial_dfa', 'ref': make_partial(rng, R, rng.choice([0.1, 0.3, 0.7, 1.0]))}
    # the prefix-free / non-extendable restrictions depend on cycles among non-accepting states and on the
    # order in which accepting states and symbols are visited: many mid-size DFAs, several accepting states
    for _ in range(4000 if thorough else 1200):
        k = rng.randint(1, 3)
        n = rng.randint(3, 8)
        R = fag.maybe_digits(rng, fag.random_dfa(rng, n, k, names=rng.choice([None, fag.random_names(rng, n, exotic=True)]), p_final=rng.choice([0.3, 0.5, 0.7])))
        yield {'kind': 'restrict', 'cls': 'random_dfa_restrictions', 'ref': R}
    # beyond the small scopes: operands with 9..40 states, alphabets of 4..6 symbols
    for _ in range(60 if thorough else 6):
        n = rng.choice([9, 10, 11, 12, 16, 17, 26, 33, 40])
        k = rng.choice([1, 2, 4, 6])
        R = fag.random_dfa(rng, n, k, p_final=rng.choice([0.2, 0.5]))
        yield {'kind': 'unary', 'cls': 'large_dfa', 'ref': R}
        yield {'kind': 'partial', 'cls': 'large_partial_dfa', 'ref': make_partial(rng, R, 0.2)}
        n2 = rng.choice([9, 10, 12, 17])
        R2 = fag.random_dfa(rng, n2, k, names=['r%d' % i for i in range(n2)], p_final=0.4)
        yield {'kind': 'pair', 'cls': 'large_pair', 'ref1': fag.random_dfa(rng, min(n, 17), k, p_final=0.4), 'ref2': R2}
    # numbered names with the hints of the constructions' fresh-name helpers (q, trap, P): runs spanning digit lengths, gaps
    for _ in range(150 if thorough else 40):
        n = rng.randint(2, 8)
        R = fag.random_dfa(rng, n, rng.randint(1, 2), names=fag.hint_names(rng, n, rng.choice(['q', 'q', 'trap', 'P'])), p_final=rng.choice([0.3, 0.6]))
        yield {'kind': 'unary', 'cls': 'numbered_helper_names', 'ref': R}
        yield {'kind': 'partial', 'cls': 'numbered_helper_names_partial', 'ref': make_partial(rng, R, rng.choice([0.2, 0.5]))}
    # names that collide with the helper names the constructions introduce
    for names in (['trap1', 'trap2', 'q1'], ['q1', 'q2', 'q3'], ['P1', 'trap', 'q']):
        R = fag.random_dfa(rng, 3, 2, names=names)
        yield {'kind': 'unary', 'cls': 'colliding_names', 'ref': R}
        yield {'kind': 'partial', 'cls': 'colliding_names_partial', 'ref': make_partial(rng, R, 0.4)}
    # finite languages
    words = list(fa.words_upto('ab', 3))
    langs = (c for r in range(0, 7) for c in itertools.combinations(words, r))
    for i, L in enumerate(common.shard_slice(langs, rec)):
        L2 = [words[(i * 7 + j * 3) % len(words)] for j in range(i % 4)]
        yield {'kind': 'lang', 'cls': 'enum_language', 'L': list(L), 'L2': sorted(set(L2))}
    for _ in range(300 if thorough else 80):
        S = 'abc'[:rng.randint(1, 3)]
        pool = list(fa.words_upto(S, 5))
        L = rng.sample(pool, rng.randint(0, min(12, len(pool))))
        L2 = rng.sample(pool, rng.randint(0, min(6, len(pool))))
        yield {'kind': 'lang', 'cls': 'random_language', 'L': sorted(L), 'L2': sorted(L2)}
    for _ in range(300 if thorough else 80):
        S = rng.choice(['a#', '#$', '01', '_-', 'a_#', '$0', '.,', ' a'])
        pool = list(fa.words_upto(S, 4))
        L = rng.sample(pool, rng.randint(0, min(10, len(pool))))
        L2 = rng.sample(pool, rng.randint(0, min(5, len(pool))))
        yield {'kind': 'lang', 'cls': 'random_language_special_symbols', 'L': sorted(L), 'L2': sorted(L2)}
    for S in ('', 'a', 'ab', 'abc', '#', '0#'):
        for n in range(0, 5):
            yield {'kind': 'words', 'cls': 'words_up_to_n', 'Sigma': list(S), 'n': n}


def run(rec, rng, tier):
    install(rec)
    rc = common.replay_case()
    if rc is not None:
        check_case(rec, rc)
        return
    for case in gen_cases(rec, rng, tier):
        check_case(rec, common.with_scramble(case))
