"""C03 - subset construction yields an equivalent, total, fully reachable DFA."""
import os
import re
import tempfile

from vt.props import common
from vt.props.common import call, report_failure, selfcheck
from vt import adapt, env
from vt.ref import fa
from vt.gen import fag
from vt.mon import contracts

PROP = 'C03'
TITLE = 'subset construction'
SHARDS = {'quick': 8, 'thorough': 32}
TIMEOUT = {'quick': 420, 'thorough': 3000}
REQUIRED = ['nfa_to_dfa', 'nfa2dfa_command']
EXHAUSTIVE_NOTE = 'all NFAs with <=2 states over <=2 symbols plus epsilon are enumerated completely; larger NFAs are sampled'
RULE = ('cases are NFAs (complete enumeration <=2 states/<=2 symbols+eps, seeded random <=7 states, hostile families incl. Sigma empty, '
        'eps-cycles through accepting states, dead ends), in all delta container kinds, plus random renamings (iteration order). '
        'Equivalence with the NFA is decided EXACTLY (product of the returned DFA with an own determinisation, all word lengths). '
        'distinct = canonical hash of (NFA, eps symbol, container); non-trivial = the NFA has >=1 epsilon move or a nondeterministic choice and its language is neither empty nor universal')
ASSUMPTIONS = [
    'exact language equivalence through the reference determinisation + product BFS (shortest distinguishing word is the witness)',
    'state labels are read back with the documented {a,b,...} convention',
]

_REC = None


def parse_label(s):
    if not (isinstance(s, str) and len(s) >= 2 and s[0] == '{' and s[-1] == '}'):
        return None
    body = s[1:-1]
    return frozenset(body.split(',')) if body else frozenset()


def judge(rec, N, D, where):
    R = adapt.nfa_ref(N)
    from gambatools.dfa import DFA
    if not isinstance(D, DFA):
        rec.violation(where + ':not_a_dfa', 'nfa_to_dfa did not return a DFA', observed=repr(D)[:200])
        return
    RD = adapt.dfa_ref(D)
    if not fa.well_formed(RD) or not fa.is_total_dfa(RD):
        rec.violation(where + ':invalid_or_partial', 'the determinised automaton is not a valid total DFA', dfa=RD)
        return
    if set(RD[1]) != set(R[1]):
        rec.violation(where + ':alphabet_changed', 'the determinised automaton has a different alphabet', expected=R[1], observed=RD[1])
        return
    w = fa.dfa_distinguish(RD, fa.determinize(R)[0], tuple(R[1]))
    if w is not None:
        rec.violation(where + ':language_differs', 'the determinised automaton and the NFA disagree on a word', word=w,
                      nfa_accepts=fa.accepts_graph(R, w), dfa=RD)
        return
    lab = parse_label(RD[3])
    exp = fa.eps_closure_bfs(R, [R[3]])
    if lab is None or lab != exp:
        rec.violation(where + ':initial_label', 'the initial state does not stand for the epsilon closure of the NFA\'s initial state',
                      expected=sorted(exp), observed=RD[3])
    unreach = set(RD[0]) - fa.reachable(RD)
    if unreach:
        rec.violation(where + ':unreachable_state', 'the determinised automaton has unreachable states', states=sorted(unreach))


def post_nfa_to_dfa(N, result):
    _REC.ev('nfa_to_dfa')
    judge(_REC, N, result, 'nfa_to_dfa')
    return True


def install(rec):
    global _REC
    _REC = rec
    contracts.import_all()
    env.make_notebook_module()
    contracts.install('gambatools.nfa_algorithms', 'nfa_to_dfa', post=post_nfa_to_dfa)


def render_nfa(R, eps):
    lines = ['states ' + ' '.join(R[0]), 'initial ' + R[3], 'final ' + ' '.join(R[4]), 'input_symbols ' + ' '.join(R[1]), 'epsilon ' + eps]
    for (p, a, q) in R[2]:
        lines.append('%s %s %s' % (p, q, eps if a is None else a))
    return '\n'.join(lines) + '\n'


def check_case(rec, case):
    import gambatools.nfa_algorithms as na
    from gambatools.dfa_algorithms import parse_dfa
    from gambatools.automaton_algorithms import state_set_regex
    R = case['ref']
    has_choice = any(a is None for (_, a, _) in R[2]) or len({(p, a) for (p, a, q) in R[2]}) < len(R[2])
    RD = fa.determinize(R)[0]
    nontrivial = has_choice and len(RD[4]) > 0 and fa.mn_count(RD, RD[0]) > 1
    rec.note_case(case, case['cls'], nontrivial)
    o = call(adapt.build_nfa, R, case['eps'], case['container'], scramble=case.get('scr'))
    if not o.ok:
        rec.inconc('cannot build NFA')
        return
    N = o.value
    # oracle self-check: bounded comparison of the two reference semantics
    selfcheck(rec, fa.language_upto_naive(R, 3) == fa.language_upto(R, 3), R)
    o = call(na.nfa_to_dfa, N)
    if not o.ok:
        report_failure(rec, o, 'nfa_to_dfa', container=case['container'])
        return
    if len(R[0]) >= 2 and case.get('requery', True):
        # same object, changed in place, determinised again (judged against its CURRENT content)
        q = sorted(N.Q)[-1]
        N.F ^= {q}
        key = (sorted(N.Q)[0], case['eps'])
        if key not in N.delta:
            N.delta[key] = set()
        N.delta[key].add(q)
        o = call(na.nfa_to_dfa, N)
        if not o.ok:
            report_failure(rec, o, 'nfa_to_dfa', container=case['container'], after_in_place_change=True)
            return
        # and after a change that keeps every size (states, delta keys, targets): one target replaced by another state
        if common.retarget_in_place(N, repr(R)):
            rec.counters['requery_after_size_preserving_change'] += 1
            call(na.nfa_accepts_word, N, '')
            o = call(na.nfa_to_dfa, N)
            if not o.ok:
                report_failure(rec, o, 'nfa_to_dfa', container=case['container'], after_in_place_change='retarget')
                return
    # the notebook generator's route: file -> parse_nfa -> nfa_to_dfa -> print_dfa ; the text
    # must read back (with the set-label convention) as an equivalent total DFA
    if case.get('notebook') and case['eps'] and len(R[1]) > 0 and all(re.fullmatch(r'\w', x) for x in R[1]) and all(re.fullmatch(r'\w+', q) for q in R[0]):
        mk = env.make_notebook_module()
        fd, path = tempfile.mkstemp(suffix='.nfa', prefix='vt_c03_')
        try:
            with os.fdopen(fd, 'w', encoding='utf8') as f:
                f.write(render_nfa(R, case['eps']))
            o = call(mk.apply_command, 'nfa2dfa', [path])
        finally:
            os.unlink(path)
        rec.ev('nfa2dfa_command')
        if not o.ok:
            report_failure(rec, o, 'apply_command(nfa2dfa)')
            return
        o2 = call(parse_dfa, o.value, state_regex=state_set_regex())
        if not o2.ok:
            report_failure(rec, o2, 'parse_dfa', what_prefix='re-reading the generated nfa2dfa answer: ', text=o.value)
            return
        w = fa.dfa_distinguish(adapt.dfa_ref(o2.value), RD, tuple(R[1]))
        if w is not None:
            rec.violation('nfa2dfa_command:language_differs', 'the DFA text produced by the nfa2dfa notebook command differs from the NFA', word=w, text=o.value)


def gen_cases(rec, rng, tier):
    thorough = tier == 'thorough'
    conts = adapt.NFA_KINDS
    for i, R in enumerate(common.shard_slice(fag.enum_nfas(2, 2), rec)):
        yield {'cls': 'enum_nfa', 'ref': R, 'eps': ('', '_', 'ε', 'e')[i % 4], 'container': conts[(i // 4) % 4], 'notebook': i % 8 == 1}
    for (cls, R) in fag.hostile_nfas(rng):
        for eps in ('', 'ε'):
            for cont in conts:
                yield {'cls': cls + '/' + cont, 'ref': R, 'eps': eps, 'container': cont, 'notebook': True}
    for k in (5, 6, 7, 9, 10, 11, 13, 15, 16, 20, 33):
        if (k + rec.shard) % 2 == 0:
            for back in (False, True):
                if k == 33 and back and rec.shard % 4 == 1:
                    yield {'cls': 'eps_chain_beyond_recursion_limit', 'ref': fag.eps_chain(1100, accept_end=True), 'eps': '', 'container': 'defaultdict_set', 'requery': False}
                yield {'cls': 'eps_chain', 'ref': fag.eps_chain(k, back_edge=back, accept_end=(k % 3 != 0)), 'eps': rng.choice(['', 'ε']), 'container': rng.choice(conts), 'notebook': True}
    for R in fag.thompson_nfas(rng, 60 if thorough else 15):
        yield {'cls': 'thompson_nfa', 'ref': R, 'eps': rng.choice(['', '_', 'ε']), 'container': rng.choice(conts), 'notebook': rng.random() < 0.3}
    for _ in range(2000 if thorough else 120):
        n = rng.randint(1, 7)
        k = rng.randint(0, 3)
        R = fag.maybe_digits(rng, fag.random_nfa(rng, n, k, eps_density=rng.choice([0.0, 0.2, 0.6, 1.0])))
        variants = [R] + [fag.random_renaming(rng, R) for _ in range(3)]
        for j, R1 in enumerate(variants):
            cont = rng.choice(conts)
            yield {'cls': 'random_nfa' + ('_renamed' if j else ''), 'ref': R1, 'eps': rng.choice(['', '_', 'ε', 'e']), 'container': cont, 'notebook': j < 2}


def run(rec, rng, tier):
    install(rec)
    rc = common.replay_case()
    if rc is not None:
        check_case(rec, rc)
        return
    for case in gen_cases(rec, rng, tier):
        check_case(rec, common.with_scramble(case))
