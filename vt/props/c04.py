"""C04 - the three minimisers: equivalent DFA, pairwise distinguishable states, size bounds,
input unchanged, for every internal choice order."""
import inspect

from vt.props import common
from vt.props.common import call, report_failure, selfcheck
from vt import adapt
from vt.rec import h64
from vt.ref import fa
from vt.gen import fag
from vt.mon import contracts, hooks

PROP = 'C04'
TITLE = 'DFA minimisation (table filling, quotient, Hopcroft)'
SHARDS = {'quick': 8, 'thorough': 32}
TIMEOUT = {'quick': 420, 'thorough': 3000}
REQUIRED = ['dfa_minimize', 'dfa_quotient', 'dfa_hopfcroft']          # the loop-invariant probes are auxiliary: they depend on source lines a refactoring may move
EXHAUSTIVE_NOTE = 'all total DFAs with <=3 states over <=2 symbols are enumerated completely for each of the three routines'
RULE = ('cases are DFAs (complete enumeration <=3 states/<=2 symbols, seeded random <=8 states/<=3 symbols, hostile families: one state, '
        'F empty, F=Q, unreachable states, already minimal, all equivalent, Sigma empty); each is minimised by all three routines, and '
        'random cases additionally on isomorphic copies with random state names; every shard is an interpreter with its own PYTHONHASHSEED. '
        'distinct = canonical hash of the DFA; non-trivial = it has two equivalent states or an unreachable state (something to merge/keep apart) and a language that is neither empty nor universal')
ASSUMPTIONS = [
    'language equality decided exactly (product BFS); distinguishability by Moore refinement on the RESULT, cross-checked by pairwise search',
    'Myhill-Nerode class counts from Moore refinement on the reference copy of the input',
    'internal choice order is varied through PYTHONHASHSEED x state renaming, and the observed splitter sequences are counted',
]

_REC = None
_LM = None
_CUR = {}


def snap(D):
    return adapt.canon(D)


def judge(rec, name, D, result, pre):
    from gambatools.dfa import DFA
    R = pre[1]
    if adapt.canon(D) != pre:
        rec.violation(name + ':input_changed', '%s changed its argument' % name, before=pre[1], after=adapt.dfa_ref(D))
    if not isinstance(result, DFA):
        rec.violation(name + ':not_a_dfa', '%s did not return a DFA' % name)
        return
    RR = adapt.dfa_ref(result)
    if not fa.well_formed(RR) or not fa.is_total_dfa(RR):
        rec.violation(name + ':invalid_or_partial', 'result of %s is not a valid total DFA' % name, result=RR)
        return
    if set(RR[1]) != set(R[1]):
        rec.violation(name + ':alphabet_changed', 'result of %s has a different alphabet' % name)
        return
    w = fa.dfa_distinguish(RR, R, tuple(R[1]))
    if w is not None:
        rec.violation(name + ':language_differs', 'result of %s and the input disagree on a word' % name, word=w, result=RR)
        return
    k = fa.mn_count(RR, RR[0])
    if k != len(RR[0]):
        pair = fa.equivalent_state_pair(RR)
        rec.violation(name + ':equivalent_states_in_result', 'result of %s has two equivalent states' % name, pair=pair, result=RR)
    elif len(RR[0]) <= 6:
        selfcheck(rec, fa.equivalent_state_pair(RR) is None, RR)
    lo = fa.mn_count(R, sorted(fa.reachable(R)))
    hi = fa.mn_count(R, R[0])
    if not (lo <= len(RR[0]) <= hi):
        rec.violation(name + ':state_count_out_of_bounds', 'number of states of the result of %s is outside [MN(reachable), MN(all)]' % name,
                      states=len(RR[0]), lo=lo, hi=hi, result=RR)


def mk_post(name):
    def post(D, result, OLD):
        _REC.ev(name)
        judge(_REC, name, D, result, OLD.pre)
        return True
    post.__name__ = 'post_' + name
    return post


# ---------------------------------------------------------------- program-point hooks
def _find_line(func, needle):
    func = getattr(func, '__vt_original__', func)
    src, first = inspect.getsourcelines(func)
    for i, l in enumerate(src):
        if needle in l:
            return first + i
    return None


def install_hooks(rec):
    global _LM
    import gambatools.dfa_algorithms as da
    lm = hooks.LineMonitor()
    hop = da.dfa_hopfcroft
    lm.watch(hop, 'dfa_hopfcroft')
    lm.watch(da.dfa_quotient, 'dfa_quotient')
    lm.watch(da.dfa_minimize, 'dfa_minimize')
    lm.watch(da.dfa_from_table, 'dfa_from_table')
    head = _find_line(hop, 'while len(W_cal) > 0')
    popl = _find_line(hop, 'W_cal.pop()')
    qhead = _find_line(da.dfa_quotient, 'for V in VV:')
    if head is None or popl is None:
        rec.counters['hopcroft_hook_unavailable'] += 1

    def probe_hop(frame, line):
        loc = frame.f_locals
        if line == head and 'P_cal' in loc:
            rec.ev('hopcroft_loop_invariant')
            check_partition(rec, 'dfa_hopfcroft', [set(b) for b in loc['P_cal']], _CUR.get('R'), allow_empty=False)
        elif popl is not None and line == popl + 1 and 'W' in loc and 'a' in loc:
            _CUR.setdefault('seq', []).append((tuple(sorted(loc['W'])), loc['a']))

    def probe_quot(frame, line):
        loc = frame.f_locals
        if line == qhead and 'VV' in loc and 'eq' in loc:
            rec.ev('quotient_loop_invariant')
            check_partition(rec, 'dfa_quotient', [set(b) for b in loc['VV']], _CUR.get('R'), allow_empty=True)

    lm.probe_all(hop, probe_hop)
    if qhead is not None:
        lm.probe_all(da.dfa_quotient, probe_quot)
    lm.start()
    _LM = lm


def check_partition(rec, name, blocks, R, allow_empty):
    if R is None:
        return
    Q = set(R[0])
    nonempty = [b for b in blocks if b]
    union = set().union(*nonempty) if nonempty else set()
    if union != Q or sum(len(b) for b in nonempty) != len(Q) or (not allow_empty and len(nonempty) != len(blocks)):
        rec.violation(name + ':loop_invariant_partition', 'inside %s the current blocks are not a partition of Q' % name, blocks=[sorted(b) for b in blocks])
        return
    cls = _CUR.get('mn')
    blk = {}
    for i, b in enumerate(nonempty):
        for q in b:
            blk[q] = i
    for p in R[0]:
        for q in R[0]:
            if cls[p] == cls[q] and blk[p] != blk[q]:
                rec.violation(name + ':loop_invariant_separates_equivalent', 'inside %s two Myhill-Nerode-equivalent states are in different blocks' % name,
                              pair=(p, q), blocks=[sorted(b) for b in blocks])
                return


def install(rec):
    global _REC
    _REC = rec
    contracts.import_all()
    for name in ('dfa_minimize', 'dfa_quotient', 'dfa_hopfcroft'):
        contracts.install('gambatools.dfa_algorithms', name, post=mk_post(name), snapshot=snap)
    install_hooks(rec)


def check_case(rec, case):
    import gambatools.dfa_algorithms as da
    R = case['ref']
    mn_all = fa.mn_count(R, R[0])
    reach = fa.reachable(R)
    nontrivial = (mn_all < len(R[0]) or len(reach) < len(R[0])) and 0 < len(R[4]) and fa.mn_count(R, sorted(reach)) > 1
    rec.note_case(case, case['cls'], nontrivial)
    for name in ('dfa_minimize', 'dfa_quotient', 'dfa_hopfcroft'):
        o = call(adapt.build_dfa, R, scramble=case.get('scr'))
        if not o.ok:
            rec.inconc('cannot build DFA')
            return
        D = o.value
        _CUR.clear()
        _CUR['R'] = R
        _CUR['mn'] = fa.moore_classes(R, R[0])
        o = call(getattr(da, name), D)
        if name == 'dfa_hopfcroft' and _CUR.get('seq') is not None:
            rec.schedule(case.get('iso', 'x'), _CUR['seq'])
        _CUR.clear()
        if not o.ok:
            report_failure(rec, o, name)
            continue
        if case.get('requery') and len(R[0]) >= 2:
            # the same OBJECT, changed in place (acceptance of one state, one move), minimised again: judged by
            # the contract against its current content (a per-object cache would answer for the old automaton)
            q = sorted(D.Q)[-1]
            D.F ^= {q}
            if D.Sigma:
                a0 = sorted(D.Sigma)[0]
                D.delta[(sorted(D.Q)[0], a0)] = q
            R2 = adapt.dfa_ref(D)
            _CUR['R'] = R2
            _CUR['mn'] = fa.moore_classes(R2, R2[0])
            o = call(getattr(da, name), D)
            _CUR.clear()
            if not o.ok:
                report_failure(rec, o, name, after_in_place_change=True)


def gen_cases(rec, rng, tier):
    thorough = tier == 'thorough'
    for R in common.shard_slice(fag.enum_dfas(3, 2), rec):
        yield {'cls': 'enum_dfa', 'ref': R, 'iso': h64(R)}
    for R in common.shard_slice(fag.enum_dfas(4, 1), rec):
        if len(R[0]) == 4:
            yield {'cls': 'enum_dfa_4_states_unary', 'ref': R, 'iso': h64(R)}
    if thorough:
        for i, R in enumerate(fag.enum_dfas(4, 2, 2)):
            if len(R[0]) == 4 and i % 60 == (rec.seed % 60) and (i // 60) % rec.nshards == rec.shard:
                yield {'cls': 'enum_dfa_4_states_sampled', 'ref': R, 'iso': h64(R)}
    # hostile families and schedule-sensitive cases run in EVERY shard (different hash seed each)
    for (cls, R) in fag.hostile_dfas(rng):
        yield {'cls': cls, 'ref': R, 'iso': h64(R)}
        for _ in range(3):
            yield {'cls': cls + '_renamed', 'ref': fag.random_renaming(rng, R), 'iso': h64(R)}
    for _ in range(1000 if thorough else 70):
        n = rng.randint(2, 8)
        k = rng.randint(1, 3)
        R = fag.maybe_digits(rng, rng.choice([fag.random_dfa, fag.random_connected_dfa])(rng, n, k, p_final=rng.choice([0.2, 0.5, 0.8])))
        yield {'cls': 'random_dfa', 'ref': R, 'iso': h64(R), 'requery': True}
        for _ in range(8 if thorough else 3):
            yield {'cls': 'random_dfa_renamed', 'ref': fag.rename(R, dict(zip(R[0], fag.random_names(rng, len(R[0]), exotic=True)))), 'iso': h64(R)}
    # beyond the small scopes: 9..40 states, 4..6 symbols, and blown-up copies with many equivalent states
    for _ in range(120 if thorough else 12):
        n = rng.choice([9, 10, 11, 12, 16, 17, 26, 27, 33, 40])
        k = rng.choice([1, 2, 2, 4, 6])
        R = rng.choice([fag.random_dfa, fag.random_connected_dfa])(rng, n, k, p_final=rng.choice([0.1, 0.5]))
        yield {'cls': 'large_dfa', 'ref': R, 'iso': h64(R)}
        B = fag.random_connected_dfa(rng, rng.randint(2, 4), rng.choice([1, 2, 4]))
        m = rng.choice([4, 5, 9, 10])
        Q = ['%s_%d' % (q, i) for q in B[0] for i in range(m)]
        T = [('%s_%d' % (p, i), a, '%s_%d' % (q, rng.randrange(m))) for (p, a, q) in B[2] for i in range(m)]
        R = fa.make(Q, B[1], T, B[3] + '_0', ['%s_%d' % (q, i) for q in B[4] for i in range(m)])
        yield {'cls': 'large_blown_up', 'ref': R, 'iso': h64(R)}
    # layered 'pairs of pairs' DFAs: a block that splits into k*k pieces in one round, block numbers with two digits (k >= 11)
    for k in ((10, 11, 12, 13) if thorough else (12,)):
        if rec.shard % 8 == k % 8:
            R = fag.layered_pairs_dfa(k)
            yield {'cls': 'layered_pairs_%d' % k, 'ref': R, 'iso': h64(R)}
    # blown-up DFAs: product of a small DFA with a counter -> many equivalent states
    for _ in range(250 if thorough else 15):
        B = fag.random_connected_dfa(rng, rng.randint(1, 3), 2)
        m = rng.randint(2, 3)
        Q = ['%s_%d' % (q, i) for q in B[0] for i in range(m)]
        T = [('%s_%d' % (p, i), a, '%s_%d' % (q, rng.randrange(m))) for (p, a, q) in B[2] for i in range(m)]
        F = ['%s_%d' % (q, i) for q in B[4] for i in range(m)]
        R = fa.make(Q, B[1], T, B[3] + '_0', F)
        yield {'cls': 'blown_up', 'ref': R, 'iso': h64(R)}
        yield {'cls': 'blown_up_renamed', 'ref': fag.random_renaming(rng, R), 'iso': h64(R)}


def run(rec, rng, tier):
    install(rec)
    try:
        rc = common.replay_case()
        if rc is not None:
            check_case(rec, rc)
            return
        for case in gen_cases(rec, rng, tier):
            check_case(rec, common.with_scramble(case))
    finally:
        if _LM is not None:
            rec.extra['anchored_line_coverage'] = {k: {'lines': v['lines'], 'hit': v['hit'], 'never': v['never']} for k, v in _LM.coverage_report().items()}
            _LM.stop()
