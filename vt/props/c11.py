"""C11 - TM simulation follows Sipser semantics with a three-valued bounded verdict."""
from vt.props import common
from vt.props.common import call, report_failure, selfcheck
from vt import adapt
from vt.gen import fag
from vt.ref import tmr, fa
from vt.mon import contracts

PROP = 'C11'
TITLE = 'Turing machine simulation'
SHARDS = {'quick': 8, 'thorough': 32}
TIMEOUT = {'quick': 420, 'thorough': 3000}
REQUIRED = ['tm_accepts_word', 'tm_simulate_word', 'verdict_monotone']
EXHAUSTIVE_NOTE = 'all one-working-state machines over Gamma={a,_} (every partial transition table) with all words <=2 and all listed budgets'
RULE = ('cases are deterministic TMs: a completely enumerated family of one-working-state machines, seeded random machines with <=4 working states, '
        '|Gamma|<=4, partial delta, blank writes, left moves at the left end, loops, transitions defined on halting states, initial state = halting state, '
        'and the shipped example; each with ALL words <=3 (4 thorough) and step budgets {0,1,2,3,5,8,13,50,1000}. '
        'distinct = the machine; non-trivial = over the explored words and budgets all three verdicts True/False/None occur at least two of them')
ASSUMPTIONS = [
    'reference: own one-tape interpreter (10-line loop) returning verdict and configuration list',
    'the recorded tape is the prefix holding every visited cell, a blank being appended when the head moves onto a fresh cell',
]

_REC = None
KS = (0, 1, 2, 3, 5, 8, 13, 50, 1000)


def post_tm_accepts_word(T, word, max_steps, result):
    rec = _REC
    rec.ev('tm_accepts_word')
    RT = adapt.tm_ref(T)
    exp, _ = tmr.run(RT, word, max_steps)
    if result is not exp:
        rec.violation('tm_accepts_word:wrong_verdict', 'tm_accepts_word answers %r where the reference interpreter says %r' % (result, exp),
                      word=word, max_steps=max_steps, expected=exp, observed=result)
    return True


def post_tm_simulate_word(T, word, max_steps, result):
    rec = _REC
    rec.ev('tm_simulate_word')
    RT = adapt.tm_ref(T)
    exp_v, exp = tmr.run(RT, word, max_steps)
    try:
        got = [(q, list(tape), head) for (q, tape, head) in result]
    except Exception:
        rec.violation('tm_simulate_word:malformed', 'tm_simulate_word returned a malformed trace', observed=repr(result)[:200])
        return True
    if got != exp:
        i = next((i for i in range(min(len(got), len(exp))) if got[i] != exp[i]), min(len(got), len(exp)))
        if i == 0:
            key = 'tm_simulate_word:wrong_start'
        elif len(got) != len(exp) and i >= min(len(got), len(exp)):
            key = 'tm_simulate_word:wrong_length'
        else:
            key = 'tm_simulate_word:wrong_step'
        rec.violation(key, 'the recorded configuration sequence differs from the step-by-step semantics at row %d' % i, word=word, max_steps=max_steps,
                      expected=exp[max(0, i - 1):i + 2], observed=got[max(0, i - 1):i + 2], expected_len=len(exp), observed_len=len(got))
    return True


def install(rec):
    global _REC
    _REC = rec
    contracts.import_all()
    contracts.install('gambatools.tm_algorithms', 'tm_accepts_word', post=post_tm_accepts_word)
    contracts.install('gambatools.tm_algorithms', 'tm_simulate_word', post=post_tm_simulate_word)


def check_case(rec, case):
    import gambatools.tm_algorithms as ta
    RT = case['ref']
    o = call(adapt.build_tm, RT)
    if not o.ok:
        rec.inconc('cannot build TM: %r' % (o.exc,))
        rec.note_case(case, case['cls'], False)
        return
    T = o.value
    verdicts = set()
    words = list(fa.words_upto(RT[1], case['n'])) + list(case.get('long_words', ()))
    for w in words:
        decided = None
        ks = KS
        if len(w) > case['n']:
            # long runs: budgets around the halting step (from the reference interpreter) and around powers of two
            vv, cf_ = tmr.run(RT, w, 20000)
            h = len(cf_) - 1
            ks = sorted({0, 1, 50, 127, 128, 129, 255, 256, 257, 1000, 1023, 1024, 1025, max(h - 1, 0), h, h + 1, 2 * h + 3, 5000})
            rec.counters['long_run_steps_max'] = max(rec.counters['long_run_steps_max'], h)
        for k in ks:
            o = call(ta.tm_accepts_word, T, w, k)
            if not o.ok:
                report_failure(rec, o, 'tm_accepts_word', word=w, max_steps=k)
                break
            v = o.value
            verdicts.add(repr(v))
            rec.ev('verdict_monotone')
            if decided is not None and v is not decided:
                rec.violation('tm_accepts_word:verdict_changes_with_budget', 'a decided verdict changed for a larger step budget', word=w, max_steps=k,
                              earlier=decided, later=v)
            if v is not None and decided is None:
                decided = v
            o2 = call(ta.tm_simulate_word, T, w, k)
            if not o2.ok:
                report_failure(rec, o2, 'tm_simulate_word', word=w, max_steps=k)
                break
            tr = o2.value
            # trace agrees with verdict
            try:
                last = tr[-1][0]
                tv = True if last == RT[5] else (False if last == RT[6] else None)
                if tv is not v:
                    rec.violation('tm_simulate_word:disagrees_with_verdict', 'last recorded state and the verdict disagree', word=w, max_steps=k, verdict=v, last_state=last)
                if len(tr) > k + 1:
                    rec.violation('tm_simulate_word:too_long', 'more than max_steps steps recorded', word=w, max_steps=k, rows=len(tr))
            except Exception:
                pass
    if case.get('requery') and RT[3]:
        # the same OBJECT after an in-place change of one transition and of the accepting state
        (p_, a_, q_, b_, d_) = RT[3][0]
        T.delta[(p_, a_)] = (RT[5], b_, 'L' if d_ == 'R' else 'R')
        for w in words[:8]:
            for k in (0, 1, 3, 8, 50):
                o = call(ta.tm_accepts_word, T, w, k)
                if not o.ok:
                    report_failure(rec, o, 'tm_accepts_word', word=w, max_steps=k, after_in_place_change=True)
                    break
                o = call(ta.tm_simulate_word, T, w, k)
                if not o.ok:
                    report_failure(rec, o, 'tm_simulate_word', word=w, max_steps=k, after_in_place_change=True)
                    break
    # default budget (1000) through the default argument
    if words:
        o = call(ta.tm_accepts_word, T, words[-1])
        if not o.ok:
            report_failure(rec, o, 'tm_accepts_word', word=words[-1], max_steps='default')
    rec.note_case(case, case['cls'], len(verdicts) >= 2)


def random_tm(rng, nw, gamma_extra, sigma_n, blank, p_def=0.7, halting_moves=False, q0_halting=None):
    W = ['w%d' % i for i in range(nw)]
    qa, qr = 'qa', 'qr'
    Q = W + [qa, qr]
    Sigma = list('ab')[:sigma_n]
    Gamma = Sigma + list('xy')[:gamma_extra] + [blank]
    D = []
    src = W + ([qa, qr] if halting_moves else [])
    for p in src:
        for a in Gamma:
            if rng.random() < p_def:
                D.append((p, a, rng.choice(Q), rng.choice(Gamma), rng.choice('LLR' if rng.random() < 0.3 else 'LRR')))
    q0 = W[0] if q0_halting is None else q0_halting
    return tmr.make(Q, Sigma, Gamma, D, q0, qa, qr, blank)


def enum_one_state_tms():
    """all machines with one working state w over Gamma = {a,_}, Sigma={a}"""
    import itertools
    Q = ['w', 'qa', 'qr']
    opts = [None] + [(q, b, d) for q in Q for b in 'a_' for d in 'LR']
    for (ta_, tb) in itertools.product(opts, repeat=2):
        D = []
        if ta_ is not None:
            D.append(('w', 'a') + ta_)
        if tb is not None:
            D.append(('w', '_') + tb)
        D = [(p, a, q, b, d) for (p, a, q, b, d) in D]
        yield tmr.make(Q, ['a'], ['a', '_'], D, 'w', 'qa', 'qr', '_')


def shipped_tm():
    import os
    from vt import env
    from gambatools.tm_algorithms import parse_tm
    with open(os.path.join(env.REPO, 'examples', 'tm1.tm'), encoding='utf8') as f:
        return adapt.tm_ref(parse_tm(f.read()))


def gen_cases(rec, rng, tier):
    thorough = tier == 'thorough'
    for RT in common.shard_slice(enum_one_state_tms(), rec):
        yield {'cls': 'enum_one_state', 'ref': RT, 'n': 2}
    if rec.shard == 0:
        try:
            yield {'cls': 'shipped_tm1', 'ref': shipped_tm(), 'n': 3}
        except Exception:
            rec.counters['shipped_tm_unreadable'] += 1
    for _ in range(600 if thorough else 45):
        blank = rng.choice(['_', '□', 'B'])
        RT = random_tm(rng, rng.randint(1, 4), rng.randint(0, 2), rng.randint(0, 2), blank, p_def=rng.choice([0.4, 0.7, 1.0]),
                       halting_moves=rng.random() < 0.2)
        yield {'cls': 'random_tm', 'ref': RT, 'n': 4 if thorough and len(RT[1]) <= 2 else 3, 'requery': True}
        if rng.random() < 0.4:
            # unusual but legal state names for a directly built machine (the empty string, blanks, punctuation)
            names = fag.random_names(rng, len(RT[0]), exotic=True)
            mp = dict(zip(RT[0], names))
            yield {'cls': 'exotic_state_names', 'n': 3,
                   'ref': tmr.make([mp[q] for q in RT[0]], RT[1], RT[2], [(mp[p], a, mp[q], b, d) for (p, a, q, b, d) in RT[3]], mp[RT[4]], mp[RT[5]], mp[RT[6]], RT[7])}
    for _ in range(10 if thorough else 4):
        for h in ('qa', 'qr'):
            RT = random_tm(rng, 2, 1, 2, '_', q0_halting=h, halting_moves=True)
            yield {'cls': 'initial_state_is_halting', 'ref': RT, 'n': 2}
    # long runs (hundreds to thousands of steps): zig-zag and counting machines on long inputs
    Q = ['s', 'r0', 'r1', 'l', 'qa', 'qr']
    G = ['0', '1', 'x', '_']
    # palindromes over {0,1}: cross off the first letter, run right, compare the last, run back (quadratic number of steps)
    D = [('s', '0', 'r0', 'x', 'R'), ('s', '1', 'r1', 'x', 'R'), ('s', 'x', 'qa', 'x', 'R'), ('s', '_', 'qa', '_', 'R'),
         ('r0', '0', 'r0', '0', 'R'), ('r0', '1', 'r0', '1', 'R'), ('r0', '_', 'c0', '_', 'L'), ('r0', 'x', 'c0', 'x', 'L'),
         ('r1', '0', 'r1', '0', 'R'), ('r1', '1', 'r1', '1', 'R'), ('r1', '_', 'c1', '_', 'L'), ('r1', 'x', 'c1', 'x', 'L'),
         ('c0', '0', 'l', 'x', 'L'), ('c0', 'x', 'qa', 'x', 'R'), ('c1', '1', 'l', 'x', 'L'), ('c1', 'x', 'qa', 'x', 'R'),
         ('l', '0', 'l', '0', 'L'), ('l', '1', 'l', '1', 'L'), ('l', 'x', 's', 'x', 'R')]
    PAL = tmr.make(Q + ['c0', 'c1'], '01', G, D, 's', 'qa', 'qr', '_')
    # 0^(2^n) (Sipser fig. 3.8)
    D2 = [('q1', '_', 'qr', '_', 'R'), ('q1', 'x', 'qr', 'x', 'R'), ('q1', '0', 'q2', '_', 'R'), ('q2', 'x', 'q2', 'x', 'R'), ('q2', '_', 'qa', '_', 'R'),
          ('q2', '0', 'q3', 'x', 'R'), ('q3', 'x', 'q3', 'x', 'R'), ('q3', '0', 'q4', '0', 'R'), ('q3', '_', 'q5', '_', 'L'), ('q4', 'x', 'q4', 'x', 'R'),
          ('q4', '0', 'q3', 'x', 'R'), ('q4', '_', 'qr', '_', 'R'), ('q5', '0', 'q5', '0', 'L'), ('q5', 'x', 'q5', 'x', 'L'), ('q5', '_', 'q2', '_', 'R')]
    POW = tmr.make(['q1', 'q2', 'q3', 'q4', 'q5', 'qa', 'qr'], '0', ['0', 'x', '_'], D2, 'q1', 'qa', 'qr', '_')
    if rec.shard % 2 == 0:
        lw = []
        for L_ in (12, 16, 23, 31):
            half = ''.join(rng.choice('01') for _ in range(L_ // 2))
            lw += [half + half[::-1], half + ('0' if L_ % 2 else '') + half[::-1], half + half]
        yield {'cls': 'long_run_palindromes', 'ref': PAL, 'n': 2, 'long_words': lw[:8 if thorough else 5]}
    else:
        yield {'cls': 'long_run_powers_of_two', 'ref': POW, 'n': 2, 'long_words': ['0' * m for m in ((16, 24, 32, 33, 64) if thorough else (16, 32, 33))]}
    # left-end bouncer and non-halting loops
    yield {'cls': 'left_end', 'ref': tmr.make(['w0', 'w1', 'qa', 'qr'], 'a', ['a', '_'], [('w0', 'a', 'w0', 'a', 'L'), ('w0', '_', 'w1', '_', 'L'), ('w1', '_', 'qa', 'a', 'L')], 'w0', 'qa', 'qr', '_'), 'n': 3}
    yield {'cls': 'loop', 'ref': tmr.make(['w0', 'qa', 'qr'], 'ab', ['a', 'b', '_'], [('w0', 'a', 'w0', 'b', 'R'), ('w0', 'b', 'w0', 'a', 'R'), ('w0', '_', 'w0', '_', 'L')], 'w0', 'qa', 'qr', '_'), 'n': 3}


def run(rec, rng, tier):
    install(rec)
    rc = common.replay_case()
    if rc is not None:
        check_case(rec, rc)
        return
    for case in gen_cases(rec, rng, tier):
        check_case(rec, case)
