"""C07 - CYK membership for arbitrary grammars and every cell of the CYK table for CNF grammars."""
import glob
import os

from vt.props import common
from vt.props.common import call, report_failure, selfcheck
from vt import adapt, env
from vt.ref import cf, fa
from vt.gen import cfgg
from vt.mon import contracts

PROP = 'C07'
TITLE = 'CYK membership and table'
SHARDS = {'quick': 16, 'thorough': 32}
TIMEOUT = {'quick': 420, 'thorough': 3600}
REQUIRED = ['cfg_accepts_word', 'cfg_cyk_matrix', 'cyk_cells']
EXHAUSTIVE_NOTE = 'all 12383 grammars with variables {S,A}, terminals {a,b}, <=3 rules of right-hand side length <=2, each with all words <=4'
RULE = ('cases are grammars: enumerated small scope, seeded random grammars (<=6 variables, <=10 rules, rhs <=5) with epsilon, unit, cyclic, unproductive and '
        'unreachable rules, hostile families, directly generated CNF grammars, CNF grammars produced by cfg_to_chomsky, the shipped examples; membership is '
        'asked for ALL words over the terminals up to the bound (incl. the empty word); for CNF grammars every cell of the table is compared. '
        'distinct = the grammar; non-trivial = its language up to the bound is neither empty nor everything')
ASSUMPTIONS = [
    'reference A: least fixpoint of the length-bounded languages of all variables; reference B: span fixpoint per word; cross-checked per case',
    'terminals are lower-case letters, variables upper-case (the library compares Terminal and Variable as strings)',
]

_REC = None


def post_cfg_accepts_word(G, w, result):
    rec = _REC
    rec.ev('cfg_accepts_word')
    RG = adapt.cfg_ref(G)
    exp = cf.accepts(RG, w)
    if result is not exp and result != exp or not isinstance(result, bool):
        rec.violation('cfg_accepts_word:wrong_answer', 'cfg_accepts_word answers %r but the start variable %s the word' % (result, 'derives' if exp else 'does not derive'),
                      grammar=cf.show(RG), word=w, expected=exp, observed=result)
    return True


def post_cfg_cyk_matrix(G, w, result):
    rec = _REC
    rec.ev('cfg_cyk_matrix')
    RG = adapt.cfg_ref(G)
    if not cf.is_cnf(RG):
        return True
    D = cf.derives(RG, w)
    n = len(w)
    for i in range(n):
        for j in range(i, n):
            rec.ev('cyk_cells')
            exp = {A for A in RG[0] if (i, j + 1) in D[A]}
            try:
                got = {str(x) for x in result[i, j]}
            except Exception as e:
                rec.violation('cfg_cyk_matrix:cell_unreadable', 'a cell of the CYK table cannot be read: %r' % (e,), word=w, cell=(i, j))
                return True
            if got != exp:
                rec.violation('cfg_cyk_matrix:wrong_cell', 'a cell of the CYK table differs from the set of variables deriving the subword',
                              grammar=cf.show(RG), word=w, cell=(i, j), expected=sorted(exp), observed=sorted(got))
                return True
    return True


def install(rec):
    global _REC
    _REC = rec
    contracts.import_all()
    contracts.install('gambatools.cfg_algorithms', 'cfg_accepts_word', post=post_cfg_accepts_word)
    contracts.install('gambatools.cfg_algorithms', 'cfg_cyk_matrix', post=post_cfg_cyk_matrix)


def check_case(rec, case):
    import gambatools.cfg_algorithms as ca
    RG = case['ref']
    n = case['n']
    words = list(case['words']) if case.get('words') else list(fa.words_upto(RG[1], n))      # explicit (long) words or all words up to n
    L = cf.language_upto(RG, n)
    rec.note_case(case, case['cls'], 0 < len(L) < len(words) or (bool(case.get('words')) and 0 < len(L)))
    selfcheck(rec, all((w in L) == cf.accepts(RG, w) for w in words), RG)
    o = call(adapt.build_cfg, RG)
    if not o.ok:
        rec.inconc('cannot build CFG: %r' % (o.exc,))
        return
    G = o.value
    is_cnf = cf.is_cnf(RG)
    for w in words + list(case.get('long_words', ())):
        o = call(ca.cfg_accepts_word, G, w)
        if not o.ok:
            report_failure(rec, o, 'cfg_accepts_word', grammar=cf.show(RG), word=w)
            break
        if is_cnf and w:
            o = call(ca.cfg_cyk_matrix, G, w)
            if not o.ok:
                report_failure(rec, o, 'cfg_cyk_matrix', grammar=cf.show(RG), word=w)
                break
    # the same questions with verbose=True (the trace is printed; the answers are judged by the same contracts)
    for w in words[-4:] + words[:2]:
        with common.captured():
            o = call(ca.cfg_accepts_word, G, w, True)
        if not o.ok:
            report_failure(rec, o, 'cfg_accepts_word', grammar=cf.show(RG), word=w, verbose=True)
            break
        if is_cnf and w:
            with common.captured():
                o = call(ca.cfg_cyk_matrix, G, w, True)
            if not o.ok:
                report_failure(rec, o, 'cfg_cyk_matrix', grammar=cf.show(RG), word=w, verbose=True)
                break
    if case.get('requery') and len(RG[2]) >= 2:
        # the same grammar OBJECT after an in-place change (a rule dropped, the start variable moved)
        G.R.pop()
        others = sorted(v for v in G.V if v != G.S)
        if others:
            G.S = others[0]
        RGm = adapt.cfg_ref(G)
        for w in words[:20]:
            o = call(ca.cfg_accepts_word, G, w)
            if not o.ok:
                report_failure(rec, o, 'cfg_accepts_word', grammar=cf.show(RGm), word=w, after_in_place_change=True)
                break
    if case.get('requery'):
        # the same OBJECT taken through the library's own in-place phases; after each phase membership is asked again
        # and judged against the CURRENT content of the object (anything cached on the grammar / its alternatives
        # before the phase would be stale)
        o = call(adapt.build_cfg, RG)
        if o.ok:
            G2 = o.value
            call(G2.is_chomsky)
            call(ca.cfg_accepts_word, G2, words[1] if len(words) > 1 else '')
            for phase in ('cfg_add_new_start_variable_in_place', 'cfg_remove_epsilon_rules_in_place', 'cfg_eliminate_unit_rules_in_place',
                          'cfg_make_rules_of_length_two_in_place', 'cfg_eliminate_terminals_in_place'):
                o = call(getattr(ca, phase), G2)
                if not o.ok:
                    break
                for w in words[:14]:
                    o = call(ca.cfg_accepts_word, G2, w)
                    if not o.ok:
                        report_failure(rec, o, 'cfg_accepts_word', word=w, after=phase)
                        break
                call(G2.is_chomsky)
            # and after a direct in-place edit of one alternative's symbol list
            if G2.R:
                alt = G2.R[-1].alternative
                if alt.symbols:
                    alt.symbols[:] = alt.symbols[:-1]
                    for w in words[:14]:
                        o = call(ca.cfg_accepts_word, G2, w)
                        if not o.ok:
                            report_failure(rec, o, 'cfg_accepts_word', word=w, after='alternative edited in place')
                            break
        # symbol-KIND changes on the alternatives of one object (same length): a terminal rule becomes a unit rule,
        # a variable of a binary rule becomes a terminal, the start variable appears on a right hand side; membership
        # after each edit is judged against the current content
        import random as _random
        from gambatools.cfg import Variable as _V, Terminal as _T
        er = _random.Random(repr(RG))
        o = call(adapt.build_cfg, RG)
        if o.ok and RG[2]:
            G3 = o.value
            call(ca.cfg_accepts_word, G3, words[-1])
            Vs, Ts = sorted(RG[0]), sorted(RG[1])
            for step in range(4):
                rule = er.choice(G3.R)
                alt = rule.alternative
                if not alt.symbols:
                    continue
                i = er.randrange(len(alt.symbols))
                old = alt.symbols[i]
                if isinstance(old, _V) and Ts and er.random() < 0.6:
                    new = _T(er.choice(Ts))
                elif isinstance(old, _T) or er.random() < 0.5:
                    new = _V(er.choice([RG[3]] + Vs))
                else:
                    new = _V(RG[3])
                if er.random() < 0.5:
                    alt.symbols[i] = new
                else:
                    alt.symbols = alt.symbols[:i] + [new] + alt.symbols[i + 1:]
                rec.counters['in_place_symbol_kind_edit'] += 1
                for w in words[:20]:
                    o = call(ca.cfg_accepts_word, G3, w)
                    if not o.ok:
                        report_failure(rec, o, 'cfg_accepts_word', word=w, after='symbol kind edited in place', step=step)
                        break
    if case.get('via_chomsky'):
        # CNF grammars produced by the library's own conversion are CYK-table workloads too
        o = call(ca.cfg_to_chomsky, adapt.build_cfg(RG))
        if o.ok:
            G2 = o.value
            RG2 = adapt.cfg_ref(G2)
            if cf.is_cnf(RG2) and len(RG2[0]) <= 14:
                for w in words:
                    if w:
                        o = call(ca.cfg_cyk_matrix, G2, w)
                        if not o.ok:
                            report_failure(rec, o, 'cfg_cyk_matrix', grammar=cf.show(RG2), word=w)
                            break


def shipped():
    from gambatools.cfg_algorithms import parse_simple_cfg
    out = []
    for p in sorted(glob.glob(os.path.join(env.REPO, 'examples', '*.cfg'))):
        try:
            with open(p, encoding='utf8') as f:
                txt = '\n'.join(l for l in f.read().split('\n') if not l.strip().startswith('%'))
            out.append((os.path.basename(p), adapt.cfg_ref(parse_simple_cfg(txt))))
        except Exception:
            pass
    return out


def gen_cases(rec, rng, tier):
    thorough = tier == 'thorough'
    def small():
        for i, RG in enumerate(cfgg.enum_grammars(3)):
            yield RG
    for RG in common.shard_slice(small(), rec):
        yield {'cls': 'enum_grammar', 'ref': RG, 'n': 4}
    if rec.shard == 0:
        for (name, RG) in shipped():
            yield {'cls': 'shipped_' + name, 'ref': RG, 'n': 5 if len(RG[1]) <= 2 else 4}
    if rec.shard % 4 == 0:
        for (cls, RG) in cfgg.hostile_grammars(rng):
            yield {'cls': cls, 'ref': RG, 'n': 5, 'via_chomsky': True}
    for _ in range(300 if thorough else 30):
        nv = rng.randint(1, 6)
        RG = cfgg.random_grammar(rng, nv, rng.randint(1, 10), max_rhs=rng.choice([2, 3, 5]), nt=rng.randint(1, 3),
                                 p_eps=rng.choice([0.0, 0.15, 0.3]), p_unit=rng.choice([0.0, 0.2, 0.4]))
        yield {'cls': 'random_grammar', 'ref': RG, 'n': (6 if thorough else 5) if len(RG[1]) <= 2 else 4, 'via_chomsky': True, 'requery': True}
        yield {'cls': 'multichar_variable_names', 'ref': cfgg.multichar_renaming(rng, RG), 'n': 4}
        # the same rule list with another start variable, evaluated in the same interpreter
        for tw in cfgg.start_twins(RG)[:2]:
            yield {'cls': 'same_rules_other_start_variable', 'ref': tw, 'n': 4}
    for _ in range(200 if thorough else 25):
        RG = cfgg.cnf_shape_with_inner_epsilon(rng)
        yield {'cls': 'cnf_shape_with_inner_epsilon', 'ref': RG, 'n': 4}
        yield {'cls': 'composite_start_name', 'ref': cfgg.composite_start_name(rng, RG), 'n': 4}
        RG = cfgg.random_cnf(rng, rng.randint(2, 5), rng.randint(1, 6), nt=rng.randint(1, 2))
        yield {'cls': 'composite_start_name', 'ref': cfgg.composite_start_name(rng, RG), 'n': 4}
        # a variable (the start variable or another one) whose name is the empty string: legal for a grammar built through the API
        RG = cfgg.cnf_shape_with_inner_epsilon(rng) if rng.random() < 0.6 else cfgg.random_cnf(rng, rng.randint(2, 4), rng.randint(1, 5), nt=2)
        yield {'cls': 'empty_string_variable_name', 'ref': cfgg.rename_vars(RG, {(RG[3] if rng.random() < 0.6 else rng.choice(RG[0])): ''}), 'n': 4}
    for (L_, extra) in (((13, 0), (14, 19), (15, 22), (36, 0), (37, 0), (38, 2)) if thorough else ((14, 19), (37, 0))):
        if rec.shard % 4 == (L_ + extra) % 4:
            RGl, near = cfgg.long_rhs_grammar(rng, L_, extra)
            yield {'cls': 'long_right_hand_side', 'ref': RGl, 'n': L_ + 1, 'words': near}
    for _ in range(120 if thorough else 8):
        yield {'cls': 'unit_cycles', 'ref': cfgg.unit_cycle_grammar(rng), 'n': 3, 'via_chomsky': True}
        yield {'cls': 'redundant_cnf', 'ref': cfgg.redundant_cnf(rng), 'n': 5}
        yield {'cls': 'ambiguous_name_concatenation', 'ref': cfgg.ambiguous_concat_cnf(rng), 'n': 3}
        yield {'cls': 'ambiguous_long_rule_tails', 'ref': cfgg.ambiguous_long_rules(rng), 'n': 4}
    for _ in range(300 if thorough else 30):
        nv = rng.randint(1, 6)
        RG = cfgg.random_cnf(rng, nv, rng.randint(0, 8), nt=rng.randint(1, 3))
        yield {'cls': 'random_cnf', 'ref': RG, 'n': (6 if thorough else 5) if len(RG[1]) <= 2 else 4, 'requery': True}
        lw = cfgg.random_long_words(rng, RG)
        if lw:
            # words of 8..14 letters (members by random derivation, and near misses): table sizes beyond 'all words up to 6'
            yield {'cls': 'random_cnf_long_words', 'ref': RG, 'n': 1, 'long_words': lw}


def run(rec, rng, tier):
    install(rec)
    rc = common.replay_case()
    if rc is not None:
        check_case(rec, rc)
        return
    for case in gen_cases(rec, rng, tier):
        check_case(rec, case)
