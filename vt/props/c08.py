"""C08 - Chomsky conversion: CNF result with the same language, phase by phase, fresh variables."""
from vt.props import common
from vt.props.common import call, report_failure, selfcheck
from vt import adapt
from vt.rec import h64
from vt.ref import cf, fa
from vt.gen import cfgg
from vt.mon import contracts

PROP = 'C08'
TITLE = 'Chomsky normal form conversion'
SHARDS = {'quick': 16, 'thorough': 32}
TIMEOUT = {'quick': 420, 'thorough': 3600}
REQUIRED = ['cfg_to_chomsky', 'cfg_fresh_variable', 'cfg_add_new_start_variable_in_place', 'cfg_remove_epsilon_rules_in_place',
            'cfg_eliminate_unit_rules_in_place', 'cfg_make_rules_of_length_two_in_place', 'cfg_eliminate_terminals_in_place', 'cfg_apply_chomsky']
EXHAUSTIVE_NOTE = 'all 12383 grammars with variables {S,A}, terminals {a,b}, <=3 rules of right-hand side length <=2'
RULE = ('cases are grammars: enumerated small scope, seeded random (<=6 variables, <=10 rules, rhs <=6), hostile families (nullable start, start on a rhs, cyclic unit '
        'rules, several variables sharing one right-hand side, 23..30 variables, taken hints), random variable renamings (rule order depends on set iteration); '
        'every phase function is monitored wherever it runs: standalone (copying and in-place variant), inside cfg_to_chomsky and inside cfg_apply_chomsky. '
        'Language equality is BOUNDED: all words up to n (5 quick / 6 thorough; CFG equivalence is undecidable). '
        'distinct = the grammar; non-trivial = it has an epsilon rule, a unit rule or a rhs longer than 2, and a language up to n that is neither empty nor everything')
ASSUMPTIONS = [
    'language equality on all words up to the bound with the fixpoint reference on both sides (bounded, not exact)',
    'CNF recogniser written after Sipser; validity = every symbol used is declared',
    'terminals are lower-case letters, variables upper-case names',
]

_REC = None
_N = 5
_CHK = {}


def lang(RG):
    return cf.language_upto(RG, _N)


def same_language(rec, name, before, after):
    A, B = lang(before), lang(after)
    if A != B:
        extra = sorted(B - A, key=lambda w: (len(w), w))[:3]
        missing = sorted(A - B, key=lambda w: (len(w), w))[:3]
        rec.violation(name + ':language_differs', '%s changed the language' % name, before=cf.show(before), after=cf.show(after), extra=extra, missing=missing)
        return False
    return True


def valid(rec, name, RG):
    if not cf.well_formed(RG) or RG[3] not in RG[0]:
        rec.violation(name + ':invalid_grammar', 'after %s the grammar uses undeclared symbols' % name, grammar=cf.show(RG))
        return False
    return True


def snap(G):
    return adapt.cfg_ref(G)


def post_cfg_fresh_variable(G, hint, result):
    rec = _REC
    rec.ev('cfg_fresh_variable')
    if result is None or result in G.V or str(result) in {str(v) for v in G.V}:
        rec.violation('cfg_fresh_variable:not_fresh', 'cfg_fresh_variable returned a variable that already exists (or nothing)', hint=hint, result=result, V=sorted(map(str, G.V)))
    elif str(result) in {str(t) for t in G.Sigma}:
        # observed, not judged: the property demands distinctness from the existing VARIABLES; for digit / punctuation
        # terminals the terminal-isolating phase names its variable like the terminal (str.upper() is the identity),
        # which keeps the grammar valid and the language intact
        rec.counters['fresh_variable_named_like_a_terminal'] += 1
    return True


def post_start(G, hint, result, OLD):
    rec = _REC
    name = 'cfg_add_new_start_variable_in_place'
    rec.ev(name)
    before, after = OLD.pre, adapt.cfg_ref(G)
    if not valid(rec, name, after):
        return True
    S0 = after[3]
    if S0 in before[0]:
        rec.violation(name + ':start_not_fresh', 'the new start variable already existed', start=S0)
    rs = [r for r in after[2] if r[0] == S0]
    if rs != [(S0, (('V', before[3]),))]:
        rec.violation(name + ':start_rule', 'the new start variable must have the single rule S0 -> S', rules=rs)
    if any(('V', S0) in rhs for (_, rhs) in after[2]):
        rec.violation(name + ':start_on_rhs', 'the new start variable occurs on a right-hand side')
    same_language(rec, name, before, after)
    return True


def post_eps(G, result, OLD):
    rec = _REC
    name = 'cfg_remove_epsilon_rules_in_place'
    rec.ev(name)
    before, after = OLD.pre, adapt.cfg_ref(G)
    if not valid(rec, name, after):
        return True
    bad = [r for r in after[2] if len(r[1]) == 0 and r[0] != after[3]]
    if bad:
        rec.violation(name + ':epsilon_rule_left', 'an epsilon rule for a variable other than the start variable is left', rules=bad, grammar=cf.show(after))
    same_language(rec, name, before, after)
    return True


def post_unit(G, result, OLD):
    rec = _REC
    name = 'cfg_eliminate_unit_rules_in_place'
    rec.ev(name)
    before, after = OLD.pre, adapt.cfg_ref(G)
    if not valid(rec, name, after):
        return True
    bad = [r for r in after[2] if len(r[1]) == 1 and r[1][0][0] == 'V']
    if bad:
        rec.violation(name + ':unit_rule_left', 'a unit rule is left', rules=bad)
    same_language(rec, name, before, after)
    return True


def post_len2(G, result, OLD):
    rec = _REC
    name = 'cfg_make_rules_of_length_two_in_place'
    rec.ev(name)
    before, after = OLD.pre, adapt.cfg_ref(G)
    if not valid(rec, name, after):
        return True
    bad = [r for r in after[2] if len(r[1]) > 2]
    if bad:
        rec.violation(name + ':long_rule_left', 'a right-hand side longer than two is left', rules=bad)
    same_language(rec, name, before, after)
    return True


def post_term(G, result, OLD):
    rec = _REC
    name = 'cfg_eliminate_terminals_in_place'
    rec.ev(name)
    before, after = OLD.pre, adapt.cfg_ref(G)
    if not valid(rec, name, after):
        return True
    bad = [r for r in after[2] if len(r[1]) >= 2 and any(k == 'T' for (k, _) in r[1])]
    if bad:
        rec.violation(name + ':terminal_in_long_rule', 'a right-hand side of length >= 2 still contains a terminal', rules=bad)
    same_language(rec, name, before, after)
    return True


def post_chomsky(G, result, OLD):
    rec = _REC
    name = 'cfg_to_chomsky'
    rec.ev(name)
    from gambatools.cfg import CFG
    before = OLD.pre
    if adapt.cfg_ref(G) != before:
        rec.violation(name + ':input_changed', 'cfg_to_chomsky changed its argument', before=cf.show(before), after=cf.show(adapt.cfg_ref(G)))
    if not isinstance(result, CFG):
        rec.violation(name + ':not_a_cfg', 'cfg_to_chomsky returned %r' % (result,))
        return True
    after = adapt.cfg_ref(result)
    if not valid(rec, name, after):
        return True
    if not cf.is_cnf(after):
        rec.violation(name + ':not_cnf', 'the result of cfg_to_chomsky is not in Chomsky normal form', grammar=cf.show(after))
    same_language(rec, name, before, after)
    return True


def mk_copy_post(name):
    def post(G, result, OLD):
        _REC.ev(name)
        if adapt.cfg_ref(G) != OLD.pre:
            _REC.violation(name + ':input_changed', '%s changed its argument' % name)
        return True
    post.__name__ = 'post_' + name
    return post


def install(rec):
    global _REC
    _REC = rec
    contracts.import_all()
    m = 'gambatools.cfg_algorithms'
    contracts.install(m, 'cfg_fresh_variable', post=post_cfg_fresh_variable)
    contracts.install(m, 'cfg_add_new_start_variable_in_place', post=post_start, snapshot=snap)
    contracts.install(m, 'cfg_remove_epsilon_rules_in_place', post=post_eps, snapshot=snap)
    contracts.install(m, 'cfg_eliminate_unit_rules_in_place', post=post_unit, snapshot=snap)
    contracts.install(m, 'cfg_make_rules_of_length_two_in_place', post=post_len2, snapshot=snap)
    contracts.install(m, 'cfg_eliminate_terminals_in_place', post=post_term, snapshot=snap)
    contracts.install(m, 'cfg_to_chomsky', post=post_chomsky, snapshot=snap)
    for nm in ('cfg_add_new_start_variable', 'cfg_remove_epsilon_rules', 'cfg_eliminate_unit_rules', 'cfg_make_rules_of_length_two', 'cfg_eliminate_terminals'):
        contracts.install(m, nm, post=mk_copy_post(nm), snapshot=snap)


def check_case(rec, case):
    global _N
    import gambatools.cfg_algorithms as ca
    import gambatools.notebook_chomsky as nc
    RG = case['ref']
    _N = case['n']
    L = lang(RG)
    nwords = sum(len(RG[1]) ** k for k in range(_N + 1))
    special = any(len(r) == 0 or len(r) > 2 or (len(r) == 1 and r[0][0] == 'V') for (_, r) in RG[2])
    rec.note_case(case, case['cls'], special and 0 < len(L) < nwords)
    if len(RG[0]) <= 4 and _N <= 5:
        selfcheck(rec, all((w in L) == cf.accepts(RG, w) for w in fa.words_upto(RG[1], min(_N, 3))), RG)

    def G():
        return adapt.build_cfg(RG)
    with common.captured():
        o = call(ca.cfg_to_chomsky, G(), True)          # verbose=True: the phases are printed, the result is judged the same way
    if not o.ok:
        report_failure(rec, o, 'cfg_to_chomsky', grammar=cf.show(RG), verbose=True)
    o = call(ca.cfg_to_chomsky, G())
    if not o.ok:
        report_failure(rec, o, 'cfg_to_chomsky', grammar=cf.show(RG))
    if len(RG[2]) >= 2 and case['cls'].startswith('random'):
        # the same grammar OBJECT converted, changed in place (a rule dropped / the start variable moved), converted again
        G0 = G()
        for round_ in (0, 1):
            o = call(ca.cfg_to_chomsky, G0)
            if not o.ok:
                report_failure(rec, o, 'cfg_to_chomsky', grammar=cf.show(adapt.cfg_ref(G0)), after_in_place_change=bool(round_))
            for name in ('cfg_remove_epsilon_rules', 'cfg_eliminate_unit_rules'):
                o = call(getattr(ca, name), G0)
                if not o.ok:
                    report_failure(rec, o, name, grammar=cf.show(adapt.cfg_ref(G0)), after_in_place_change=bool(round_))
            if round_ == 0 and not common.mutate_in_place(G0, repr(RG)):
                break
            rec.counters['requery_after_in_place_change'] += 1 - round_
    hint = case.get('hint', 'S')
    for (name, args) in (('cfg_add_new_start_variable', (hint,)), ('cfg_remove_epsilon_rules', ()), ('cfg_eliminate_unit_rules', ()),
                         ('cfg_make_rules_of_length_two', ()), ('cfg_eliminate_terminals', ())):
        G0 = G()
        o = call(getattr(ca, name), G0, *args)
        if not o.ok:
            report_failure(rec, o, name, grammar=cf.show(RG))
            continue
        # the conversion continued on the RESULT with the in-place phases (as a pipeline does): the input of the copying phase
        # must still be untouched afterwards
        G1 = o.value
        order = ['cfg_add_new_start_variable', 'cfg_remove_epsilon_rules', 'cfg_eliminate_unit_rules', 'cfg_make_rules_of_length_two', 'cfg_eliminate_terminals']
        later = [x + '_in_place' for x in order[order.index(name) + 1:]]         # only the LATER phases, in the order of the conversion
        for ph in later:
            o2 = call(getattr(ca, ph), G1)
            if not o2.ok:
                break
        rec.ev('pipeline_input_untouched')
        if adapt.cfg_ref(G0) != RG:
            rec.violation(name + ':input_changed_by_later_phases_on_the_result', 'after %s(G) the in-place phases applied to its RESULT changed G: the result is not an independent grammar' % name,
                          before=cf.show(RG), after=cf.show(adapt.cfg_ref(G0)))
    for phase in range(0, 6):
        g = G()
        o = call(nc.cfg_apply_chomsky, g, phase, case.get('start_variable', 'T'))
        rec.ev('cfg_apply_chomsky')
        if not o.ok:
            report_failure(rec, o, 'cfg_apply_chomsky', grammar=cf.show(RG), phase=phase)
            continue
        if adapt.cfg_ref(g) != RG:
            rec.violation('cfg_apply_chomsky:input_changed', 'cfg_apply_chomsky changed its argument', phase=phase)
        after = adapt.cfg_ref(o.value)
        if lang(after) != L:
            rec.violation('cfg_apply_chomsky:language_differs', 'the grammar after phase %d has a different language' % phase, grammar=cf.show(RG), after=cf.show(after))
        if phase == 5 and not cf.is_cnf(after):
            rec.violation('cfg_apply_chomsky:not_cnf', 'after all five phases the grammar is not in Chomsky normal form', grammar=cf.show(RG), after=cf.show(after))


def gen_cases(rec, rng, tier):
    thorough = tier == 'thorough'
    n = 6 if thorough else 5

    def small():
        for i, RG in enumerate(cfgg.enum_grammars(3)):
            yield RG
    for RG in common.shard_slice(small(), rec):
        yield {'cls': 'enum_grammar', 'ref': RG, 'n': 4}
    for (cls, RG) in cfgg.hostile_grammars(rng):
        if rec.shard % 2 == 0:
            yield {'cls': cls, 'ref': RG, 'n': n}
        yield {'cls': cls + '_renamed', 'ref': cfgg.random_var_renaming(rng, RG), 'n': n, 'hint': rng.choice('SAXQ'), 'start_variable': rng.choice('TSAZ')}
    for _ in range(160 if thorough else 12):
        RG = cfgg.unit_cycle_grammar(rng)
        yield {'cls': 'unit_cycles', 'ref': RG, 'n': 3}
        yield {'cls': 'unit_cycles_renamed', 'ref': cfgg.random_var_renaming(rng, RG), 'n': 3}
    # long right-hand sides (the splitting phase needs 11 and more helper variables for ONE rule), below and above 26 variables
    for (L_, extra) in (((13, 0), (14, 19), (15, 22), (36, 0), (37, 0), (38, 2), (14, 25), (24, 0)) if thorough else ((14, 19), (37, 0), (13, 0), (15, 22))):
        if rec.shard % 4 == (L_ + extra) % 4:
            yield {'cls': 'long_right_hand_side', 'ref': cfgg.long_rhs_grammar(rng, L_, extra)[0], 'n': L_ + 1}
    for nv in ((23, 25, 26, 27, 30) if thorough else (24, 26, 28)):
        if rec.shard % 4 == (nv % 4):
            yield {'cls': 'many_variables_%d' % nv, 'ref': cfgg.many_variables(rng, nv), 'n': 4}
    for _ in range(300 if thorough else 25):
        nv = rng.randint(1, 6)
        RG = cfgg.random_grammar(rng, nv, rng.randint(1, 10), max_rhs=rng.choice([2, 3, 6]), nt=rng.randint(1, 3),
                                 p_eps=rng.choice([0.0, 0.15, 0.3]), p_unit=rng.choice([0.0, 0.2, 0.4]))
        nn = n if len(RG[1]) <= 2 else 4
        yield {'cls': 'random_grammar', 'ref': RG, 'n': nn}
        yield {'cls': 'random_grammar_renamed', 'ref': cfgg.random_var_renaming(rng, RG), 'n': nn, 'hint': rng.choice('SAXQ'), 'start_variable': rng.choice('TSAZ')}
        yield {'cls': 'composite_start_name', 'ref': cfgg.composite_start_name(rng, RG), 'n': min(nn, 4)}
        yield {'cls': 'empty_string_variable_name', 'ref': cfgg.rename_vars(RG, {(RG[3] if rng.random() < 0.6 else rng.choice(RG[0])): ''}), 'n': min(nn, 4)}
        yield {'cls': 'digit_or_punctuation_terminals', 'ref': cfgg.terminal_renaming(rng, RG), 'n': nn}
        yield {'cls': 'multichar_variable_names', 'ref': cfgg.multichar_renaming(rng, RG), 'n': min(nn, 4), 'hint': rng.choice(['S', 'AB', 'X']), 'start_variable': rng.choice(['T', 'AB'])}
        yield {'cls': 'ambiguous_long_rule_tails', 'ref': cfgg.ambiguous_long_rules(rng), 'n': 4}
        for tw in cfgg.start_twins(RG)[:1]:
            yield {'cls': 'same_rules_other_start_variable', 'ref': tw, 'n': min(nn, 4)}


def run(rec, rng, tier):
    install(rec)
    rc = common.replay_case()
    if rc is not None:
        check_case(rec, rc)
        return
    for case in gen_cases(rec, rng, tier):
        check_case(rec, case)
