"""C19 - pure operations keep operands intact; results independent of history, logging and hash order."""
import random

from vt.props import common
from vt.props.common import call, report_failure
from vt import adapt, env, exercises
from vt.rec import h64, jsonable
from vt.ref import fa, rx, cf, pd, tmr, txt
from vt.gen import fag, rxg, cfgg, pdag

PROP = 'C19'
TITLE = 'operands intact; results independent of history, logging and hash order'
SHARDS = {'quick': 8, 'thorough': 64}
TIMEOUT = {'quick': 420, 'thorough': 3600}
REQUIRED = ['immutability', 'repeat_call', 'history_order', 'logging_toggle', 'battery_digest']
EXHAUSTIVE_NOTE = 'no complete sub-space: a fixed battery of calls over all pure functions plus seeded random operands'
RULE = ('cases are calls of the non-in-place public functions (conversions, minimisers, products, normal forms, acceptance tests, enumerators, printers, generate_language, checkers). '
        '(a) immutability: the canonical observable content of every argument is compared before/after the call - on a FIXED battery built from sorted data and on seeded random operands, '
        'including the aliasing sites (NFA operations on operands whose accepting states already have epsilon moves, dfa_complement, unit-rule sharing). '
        '(b) the fixed battery is executed in every shard = one interpreter per PYTHONHASHSEED (8 quick / 64 thorough), in each interpreter three times: in order, in reversed order after all other '
        'calls, and with GambaTools.enable_logging switched on; every call yields a semantic digest (canonical minimal DFA of the result language for regular results, bounded language for '
        'CFG/PDA results, the value itself for enumerators / acceptance tests / printers of the argument, the OK/not-OK verdict for checkers) and all digests of one call must coincide within and across interpreters. '
        'distinct = (function, operands); non-trivial = the operand is not a one-state / one-rule object')
ASSUMPTIONS = [
    'observable content = canonical form (sets as sets, maps as sets of pairs); an EMPTY delta entry created by reading a defaultdict and dict insertion order are not observable content',
    '"all PYTHONHASHSEED values" is sampled by the shard interpreters; the digests printed by every interpreter are compared by the parent',
]


# ---------------------------------------------------------------- digests
def d_val(x):
    return jsonable(adapt.canon(x))


def d_fa(x):
    return jsonable(fa.canonical_language(adapt.any_fa_ref(x)))


def d_rx(x):
    t = adapt.rx_ref(x)
    S = tuple(sorted(rx.symbols_iter(t) | {'a', 'b'}))
    return jsonable(fa.canonical_language(rx.thompson(t, S)))


def d_cfg(x):
    return sorted(cf.language_upto(adapt.cfg_ref(x), 4))


def d_pda(x):
    return sorted(pd.language_upto(adapt.pda_ref(x), 4))


def d_lines(x):
    return sorted(' '.join(sorted(l.split())) for l in str(x).split('\n'))


def d_chars(x):
    """order-insensitive digest of a text (str(PDA) prints Python sets: the order is not content)"""
    return ''.join(sorted(str(x)))


def d_feedback(x):
    """language-comparison feedback: the verdict, the polarity and the LENGTH of the reported word are content; which
    of several shortest words is reported depends on set order and is not demanded to be identical"""
    import re
    out = []
    for msg in x:
        m = re.search(r"word '(.*)' should (not )?be accepted", msg)
        out.append(('should not' if m.group(2) else 'should', 0 if m.group(1) == 'ε' else len(m.group(1))) if m else msg)
    return out


def d_symbols(x):
    return sorted(getattr(s, 'symbol', str(s)) for s in x)


def d_cyk(X):
    return sorted((list(k), sorted(map(str, v))) for k, v in X.items() if v)


def d_present(x):
    return x is not None


def d_trace(x):
    return None if x is None else len(x)


# ---------------------------------------------------------------- operand pool (deterministic, built from sorted data)
def pool(seed):
    rng = random.Random('C19-pool/%d' % seed)
    P = {}
    P['dfa'] = [fag.random_dfa(rng, n, k) for (n, k) in ((1, 1), (3, 2), (4, 2), (5, 2), (4, 3))] + [h[1] for h in fag.hostile_dfas(rng)][-3:]
    P['dfa_names'] = fag.random_dfa(rng, 3, 2, names=['start', 'accept', 'trap1'])
    # mid-size DFAs for the set-order sensitive fixpoint / refinement / elimination loops (their pair, block and elimination
    # orders come from set iteration, i.e. from the hash seed; a loop that stops early does so for a few per cent of the orders)
    P['dfa_mid'] = [fag.random_dfa(rng, n, k, p_final=pf) for (n, k) in ((5, 2), (6, 2), (7, 2), (8, 2), (6, 3), (8, 3)) for pf in (0.3, 0.5) for _ in range(4)]
    P['nfa'] = []
    for (n, k, e) in ((1, 1, 0.5), (3, 2, 0.3), (4, 2, 0.8), (5, 2, 0.4), (3, 1, 1.2)):
        P['nfa'].append((fag.random_nfa(rng, n, k, eps_density=e), rng.choice(['', '_', 'ε']), rng.choice(adapt.NFA_KINDS)))
    # accepting states that already have epsilon moves (aliasing site of the NFA operations)
    P['nfa'].append((fa.make(['q0', 'q1', 'q2'], 'ab', [('q0', 'a', 'q1'), ('q1', None, 'q2'), ('q2', 'b', 'q0'), ('q1', None, 'q0')], 'q0', ['q1', 'q2']), '', 'defaultdict_set'))
    P['nfa'].append((fa.make(['q0', 'q1'], 'a', [('q0', 'a', 'q1'), ('q1', None, 'q1')], 'q0', ['q1']), 'ε', 'dict_total'))
    P['pda'] = [pdag.random_pda(rng, rng.randint(1, 3), rng.randint(1, 2), rng.randint(0, 2), rng.randint(1, 6)) for _ in range(3)]
    P['pda'] += [h[1] for h in pdag.hostile_pdas() if h[0] in ('anbn', 'nonempty_stack_accept', 'eps_cycle_grow', 'replace_noop', 'order_sensitive_truncation')]
    P['cfg'] = [cfgg.random_grammar(rng, rng.randint(1, 4), rng.randint(2, 8), max_rhs=4, nt=2) for _ in range(3)]
    P['cfg'] += [h[1] for h in cfgg.hostile_grammars(rng) if h[0] in ('shared_rhs', 'cyclic_unit', 'nullable_start', 'shipped_cfg2')]
    P['cfg'] += [cfgg.unit_cycle_grammar(rng, k) for k in (3, 4, 5, 6)]
    P['cnf'] = [cfgg.random_cnf(rng, rng.randint(2, 4), rng.randint(2, 6), nt=2) for _ in range(3)]
    P['rx'] = [rxg.random_tree(rng, d, 'ab', bias=b) for (d, b) in ((2, None), (4, 'star'), (5, 'unit'), (4, None), (6, 'star'))]
    P['rx'] = [t for t in P['rx'] if rx.size_iter(t) <= 40]
    from vt.props.c11 import random_tm
    P['tm'] = [random_tm(rng, rng.randint(1, 3), rng.randint(0, 1), rng.randint(1, 2), '_', p_def=0.8) for _ in range(3)]
    add_twins(P)
    return P


def add_twins(P):
    """near-twins: objects that differ from a pool object in exactly one field (start variable / initial state /
    accepting set).  A result cached under a PARTIAL identity of the argument (printed rules, transition table)
    then shows up as a dependence on the order of earlier calls."""
    R = P['dfa'][2]
    P['dfa'].append((R[0], R[1], R[2], R[0][-1], R[4]))
    P['dfa'].append((R[0], R[1], R[2], R[3], tuple(q for q in R[0] if q not in R[4])))
    (N, eps, kind) = P['nfa'][2]
    P['nfa'].append(((N[0], N[1], N[2], N[0][-1], N[4]), eps, kind))
    P['nfa'].append(((N[0], N[1], N[2], N[3], tuple(q for q in N[0] if q not in N[4])), eps, kind))
    RP = P['pda'][0]
    P['pda'].append((RP[0], RP[1], RP[2], RP[3], RP[0][-1], RP[5]))
    P['pda'].append((RP[0], RP[1], RP[2], RP[3], RP[4], tuple(q for q in RP[0] if q not in RP[5])))
    for RG in list(P['cfg'][:3]):
        P['cfg'].extend(cfgg.start_twins(RG)[:2])
    for RG in list(P['cnf'][:2]):
        tw = [t for t in cfgg.start_twins(RG) if cf.is_cnf(t)]
        P['cnf'].extend(tw[:1])
    RT = P['tm'][0]
    others = [q for q in RT[0] if q not in (RT[4], RT[5], RT[6])]
    if others:
        P['tm'].append((RT[0], RT[1], RT[2], RT[3], others[0], RT[5], RT[6], RT[7]))


def random_pool(rng):
    P = {}
    P['dfa'] = [fag.random_dfa(rng, rng.randint(2, 8), rng.randint(1, 3), names=rng.choice([None, fag.random_names(rng, 8)])) for _ in range(6)]
    P['dfa'] = [fa.make(R[0], R[1], R[2], R[3], R[4]) for R in P['dfa']]
    P['dfa_names'] = fag.random_dfa(rng, 3, 2, names=['start1', 'accept1', 'trap1'])
    P['nfa'] = [(fag.random_nfa(rng, rng.randint(1, 5), rng.randint(1, 2), eps_density=rng.choice([0.2, 0.8])), rng.choice(['', '_', 'ε']), rng.choice(adapt.NFA_KINDS)) for _ in range(3)]
    P['pda'] = [pdag.random_pda(rng, rng.randint(1, 3), rng.randint(1, 2), rng.randint(0, 2), rng.randint(1, 6)) for _ in range(2)]
    P['cfg'] = [cfgg.random_grammar(rng, rng.randint(1, 5), rng.randint(2, 9), max_rhs=5, nt=2, p_eps=0.2, p_unit=0.25) for _ in range(3)]
    P['cnf'] = [cfgg.random_cnf(rng, rng.randint(2, 4), rng.randint(2, 6), nt=2) for _ in range(2)]
    P['rx'] = [t for t in (rxg.random_tree(rng, rng.randint(2, 6), 'ab', bias=rng.choice([None, 'star', 'unit'])) for _ in range(3)) if rx.size_iter(t) <= 40]
    from vt.props.c11 import random_tm
    P['tm'] = [random_tm(rng, rng.randint(1, 3), rng.randint(0, 1), rng.randint(1, 2), '_', p_def=0.8) for _ in range(2)]
    return P


# ---------------------------------------------------------------- the catalogue of calls
def catalogue(P, with_checkers=True):
    """returns list of (name, fn, [arg builders], digest)"""
    import gambatools.dfa_algorithms as da
    import gambatools.nfa_algorithms as na
    import gambatools.pda_algorithms as pa
    import gambatools.cfg_algorithms as ca
    import gambatools.regexp_algorithms as ra
    import gambatools.tm_algorithms as ta
    import gambatools.language_generator as lg
    import gambatools.language_algorithms as la
    import gambatools.notebook_chomsky as nc
    import gambatools.regexp as gr
    C = []

    def add(name, fn, builders, digest):
        C.append((name, fn, builders, digest))
    for i, R in enumerate(P['dfa']):
        B = [lambda R=R: adapt.build_dfa(R)]
        for f in ('dfa_minimize', 'dfa_quotient', 'dfa_hopfcroft', 'dfa_complement', 'dfa_reverse', 'dfa_no_prefix', 'dfa_no_extend', 'dfa_remove_unreachable_states', 'dfa_make_total'):
            add('%s#%d' % (f, i), getattr(da, f), B, d_fa)
        if len(R[0]) <= 4:
            add('dfa_to_regexp#%d' % i, ra.dfa_to_regexp, B, d_rx)
            add('dfa_to_gnfa#%d' % i, ra.dfa_to_gnfa, B, lambda g: sorted(g.Q))
        add('print_dfa#%d' % i, da.print_dfa, B, d_lines)
        add('str(DFA)#%d' % i, str, B, d_lines)
        add('dfa_words_up_to_n#%d' % i, da.dfa_words_up_to_n, B + [lambda: 4], d_val)
        add('generate_language(DFA)#%d' % i, lg.generate_language, B + [lambda: 3], d_val)
        for w in list(fa.words_upto(R[1], 2))[:5]:
            add('dfa_accepts_word#%d/%s' % (i, w), da.dfa_accepts_word, B + [lambda w=w: w], d_val)
        add('dfa_simulate_word#%d' % i, da.dfa_simulate_word, B + [lambda R=R: (R[1][0] * 2 if R[1] else '')], d_val)
        add('dfa_reachable_states#%d' % i, da.dfa_reachable_states, B + [lambda R=R: R[3]], d_val)
        j = (i + 1) % len(P['dfa'])
        R2 = P['dfa'][j]
        if R2[1] == R[1]:
            B2 = B + [lambda R2=R2: adapt.build_dfa(fag.rename(R2, {q: 'r_' + q for q in R2[0]}))]
            for f in ('dfa_union', 'dfa_intersection', 'dfa_symmetric_difference'):
                add('%s#%d,%d' % (f, i, j), getattr(da, f), B2, d_fa)
            add('dfa_isomorphic1#%d,%d' % (i, j), da.dfa_isomorphic1, B2, d_val)
            add('dfa_isomorphic#%d,%d' % (i, j), da.dfa_isomorphic, B2, d_val)
            add('check_equal_languages(DFA)#%d,%d' % (i, j), lg.check_equal_languages, B2 + [lambda: 3], d_feedback)
        add('dfa_isomorphic1#%d,copy' % i, da.dfa_isomorphic1, B + [lambda R=R: adapt.build_dfa(fag.rename(R, {q: 'c_' + q for q in R[0]}))], d_val)
    for i, R in enumerate(P.get('dfa_mid', [])):
        B = [lambda R=R: adapt.build_dfa(R)]
        for f in ('dfa_minimize', 'dfa_quotient', 'dfa_hopfcroft', 'dfa_no_extend', 'dfa_no_prefix'):
            add('%s#mid%d' % (f, i), getattr(da, f), B, d_fa)
    for i, (R, eps, kind) in enumerate(P['nfa']):
        B = [lambda R=R, eps=eps, kind=kind: adapt.build_nfa(R, eps, kind)]
        add('nfa_to_dfa#%d' % i, na.nfa_to_dfa, B, d_fa)
        add('nfa_repetition#%d' % i, na.nfa_repetition, B, d_fa)
        add('nfa_words_up_to_n#%d' % i, na.nfa_words_up_to_n, B + [lambda: 4], d_val)
        add('generate_language(NFA)#%d' % i, lg.generate_language, B + [lambda: 3], d_val)
        add('print_nfa#%d' % i, na.print_nfa, B, d_lines)
        add('str(NFA)#%d' % i, str, B, d_lines)
        for w in list(fa.words_upto(R[1], 2))[:5]:
            add('nfa_accepts_word#%d/%s' % (i, w), na.nfa_accepts_word, B + [lambda w=w: w], d_val)
            add('nfa_simulate_word#%d/%s' % (i, w), na.nfa_simulate_word, B + [lambda w=w: w], d_present)
        for q in R[0][:3]:
            add('epsilon_closure#%d/%s' % (i, q), na.epsilon_closure, B + [lambda q=q: q], d_val)
        add('epsilon_closure#%d/set' % i, na.epsilon_closure, B + [lambda R=R: set(R[0][:2])], d_val)
        add('nfa_do_transition#%d' % i, na.nfa_do_transition, B + [lambda R=R: (R[1][0] if R[1] else 'a'), lambda R=R: set(R[0])], d_val)
        j = (i + 1) % len(P['nfa'])
        R2 = fag.rename(P['nfa'][j][0], {q: 'p_' + q for q in P['nfa'][j][0][0]})
        B2 = B + [lambda R2=R2, eps=eps: adapt.build_nfa(R2, eps, 'defaultdict_lambda')]
        add('nfa_union#%d,%d' % (i, j), na.nfa_union, B2, d_fa)
        add('nfa_concatenation#%d,%d' % (i, j), na.nfa_concatenation, B2, d_fa)
    for i, RP in enumerate(P['pda']):
        B = [lambda RP=RP: adapt.build_pda(RP, '')]
        tame = all(pd.true_eps_closure(RP, [(q, ())], 40)[1] for q in RP[0])
        add('pda_is_push_pop#%d' % i, pa.pda_is_push_pop, B, d_val)
        add('print_pda#%d' % i, pa.print_pda, B, d_lines)
        add('str(PDA)#%d' % i, str, B, d_chars)
        add('pda_to_push_pop#%d' % i, pa.pda_to_push_pop, B, d_pda)
        add('pda_to_accept_on_empty_stack#%d' % i, pa.pda_to_accept_on_empty_stack, B, d_pda)
        add('pda_to_cfg#%d' % i, pa.pda_to_cfg, B, d_cfg)
        lim = 1000 if tame else 4
        for w in list(fa.words_upto(RP[1], 2))[:4]:
            add('pda_accepts_word@%d#%d/%s' % (lim, i, w), with_limit(pa.pda_accepts_word, lim), B + [lambda w=w: w], d_val)
            add('pda_simulate_word@%d#%d/%s' % (lim, i, w), with_limit(pa.pda_simulate_word, lim), B + [lambda w=w: w], d_present)
        add('pda_words_up_to_n@%d#%d' % (lim, i), with_limit(pa.pda_words_up_to_n, lim), B + [lambda: 3], d_val)
        if not tame:
            add('pda_words_up_to_n@12#%d' % i, with_limit(pa.pda_words_up_to_n, 12), B + [lambda: 2], d_val)
            add('pda_accepts_word@12#%d' % i, with_limit(pa.pda_accepts_word, 12), B + [lambda RP=RP: (RP[1][0] if RP[1] else '')], d_val)
        else:
            add('generate_language(PDA)#%d' % i, lg.generate_language, B + [lambda: 3], d_val)
    # a PDA whose epsilon closure is cut off at the limit (two pushing epsilon loops, two branches that pop one kind of symbol each):
    # WHICH stack contents survive the cut-off depends on the order in which pending configurations are taken; the answers for
    # a^k / b^k around the depth reached must be the same in every interpreter
    RPt = pd.make(['i', 'p', 'd', 'e', 'f'], 'ab', 'XYZ', [('i', None, None, 'p', 'Z'), ('p', None, None, 'p', 'X'), ('p', None, None, 'p', 'Y'), ('p', 'a', 'X', 'd', None),
                                                              ('p', 'b', 'Y', 'e', None), ('d', 'a', 'X', 'd', None), ('e', 'b', 'Y', 'e', None), ('d', None, 'Z', 'f', None), ('e', None, 'Z', 'f', None)], 'i', ['f'])
    Bt = [lambda: adapt.build_pda(RPt, '')]
    for (lim, ks) in ((1000, (8, 9, 10, 11)), (100, (5, 6, 7)), (30, (3, 4, 5)), (10, (2, 3))):
        for k in ks:
            for c in 'ab':
                add('pda_accepts_word@%d#cutoff/%s^%d' % (lim, c, k), with_limit(pa.pda_accepts_word, lim), Bt + [lambda c=c, k=k: c * k], d_val)
        add('pda_words_up_to_n@%d#cutoff' % lim, with_limit(pa.pda_words_up_to_n, lim), Bt + [lambda lim=lim: 3 if lim >= 100 else 4], d_val)
    # a second cut-off PDA: reading a^k leaves 2^k configurations with the SAME state and stack height (X or Y pushed per letter); an
    # unbounded epsilon loop pushes Z on each of them, so the closure after a^k is cut off while the tied configurations are being
    # expanded; b pops a Z, then a word over c / d pops the stack symbol by symbol - each continuation asks for ONE of the tied
    # configurations.  Which of them got their Z before the cut-off must not depend on the interpreter
    import itertools as _it
    RPu = pd.make(['p', 'r'], 'abcd', 'XYZ', [('p', 'a', None, 'p', 'X'), ('p', 'a', None, 'p', 'Y'), ('p', None, None, 'p', 'Z'), ('p', 'b', 'Z', 'r', None),
                                              ('r', 'c', 'X', 'r', None), ('r', 'd', 'Y', 'r', None)], 'p', ['r'])
    Bu = [lambda: adapt.build_pda(RPu, '')]
    for (lim, k) in ((6, 3), (10, 4), (12, 4)):
        for t in _it.product('cd', repeat=k):
            w_ = 'a' * k + 'b' + ''.join(t)
            add('pda_accepts_word@%d#ties/%s' % (lim, w_), with_limit(pa.pda_accepts_word, lim), Bu + [lambda w_=w_: w_], d_val)
    for i, RG in enumerate(P['cfg']):
        B = [lambda RG=RG: adapt.build_cfg(RG)]
        for f in ('cfg_to_chomsky', 'cfg_remove_epsilon_rules', 'cfg_eliminate_unit_rules', 'cfg_add_new_start_variable', 'cfg_make_rules_of_length_two',
                  'cfg_eliminate_terminals', 'cfg_remove_inproductive_variables', 'cfg_remove_useless_rules'):
            add('%s#%d' % (f, i), getattr(ca, f), B, d_cfg)
        for ph in (1, 3, 5):
            add('cfg_apply_chomsky/%d#%d' % (ph, i), nc.cfg_apply_chomsky, B + [lambda ph=ph: ph, lambda: 'T'], d_cfg)
        add('cfg_nullable_variables#%d' % i, ca.cfg_nullable_variables, B, d_val)
        add('cfg_productive_variables#%d' % i, ca.cfg_productive_variables, B, d_val)
        add('cfg_derivable_variables#%d' % i, ca.cfg_derivable_variables, B + [lambda RG=RG: __import__('gambatools.cfg', fromlist=['Variable']).Variable(RG[3])], d_val)
        add('cfg_words_up_to_n#%d' % i, ca.cfg_words_up_to_n, B + [lambda: 4], d_val)
        add('generate_language(CFG)#%d' % i, lg.generate_language, B + [lambda: 3], d_val)
        add('str(CFG)#%d' % i, str, B, d_val)
        add('cfg_is_simple#%d' % i, ca.cfg_is_simple, B, d_val)
        add('CFG.is_chomsky#%d' % i, lambda G: G.is_chomsky(), B, d_val)
        add('CFG.is_valid#%d' % i, lambda G: G.is_valid(), B, d_val)
        for w in list(fa.words_upto(RG[1], 2))[:4]:
            add('cfg_accepts_word#%d/%s' % (i, w), ca.cfg_accepts_word, B + [lambda w=w: w], d_val)
    for i, RG in enumerate(P['cnf']):
        B = [lambda RG=RG: adapt.build_cfg(RG)]
        L = sorted(cf.language_upto(RG, 4) - {''})
        for w in L[:3]:
            add('cfg_cyk_matrix#%d/%s' % (i, w), ca.cfg_cyk_matrix, B + [lambda w=w: w], d_cyk)
            add('cfg_derive_word#%d/%s' % (i, w), ca.cfg_derive_word, B + [lambda w=w: w, lambda: 'leftmost'], d_trace)
        add('cfg_print_simple#%d' % i, ca.cfg_print_simple, B, d_val)
        add('cfg_words_up_to_n(CNF)#%d' % i, ca.cfg_words_up_to_n, B + [lambda: 4], d_val)
    for i, t in enumerate(P['rx']):
        B = [lambda t=t: adapt.build_rx(t)]
        add('regexp_simplify#%d' % i, ra.regexp_simplify, B, d_rx)
        add('regexp_to_nfa#%d' % i, ra.regexp_to_nfa, B, d_fa)
        add('regexp_words_up_to_n#%d' % i, ra.regexp_words_up_to_n, B + [lambda: 4], d_val)
        add('generate_language(regexp)#%d' % i, lg.generate_language, B + [lambda: 3], d_val)
        add('regexp_size#%d' % i, ra.regexp_size, B, d_val)
        add('regexp_symbols#%d' % i, ra.regexp_symbols, B, d_symbols)
        add('print_regexp#%d' % i, gr.print_regexp, B, d_val)
        add('print_regexp_simple#%d' % i, gr.print_regexp_simple, B, d_val)
        add('str(regexp)#%d' % i, str, B, d_val)
        for w in ('', 'a', 'ab', 'ba', 'aab'):
            add('regexp_accepts_word#%d/%s' % (i, w), ra.regexp_accepts_word, B + [lambda w=w: w], d_val)
    for i, RT in enumerate(P['tm']):
        B = [lambda RT=RT: adapt.build_tm(RT)]
        add('print_tm#%d' % i, ta.print_tm, B, d_lines)
        add('str(TM)#%d' % i, str, B, d_lines)
        add('tm_words_up_to_n#%d' % i, ta.tm_words_up_to_n, B + [lambda: 3, lambda: 200], d_val)
        add('generate_language(TM)#%d' % i, lg.generate_language, B + [lambda: 2], d_val)
        for w in list(fa.words_upto(RT[1], 2))[:4]:
            add('tm_accepts_word#%d/%s' % (i, w), ta.tm_accepts_word, B + [lambda w=w: w, lambda: 200], d_val)
            add('tm_simulate_word#%d/%s' % (i, w), ta.tm_simulate_word, B + [lambda w=w: w, lambda: 50], d_val)
    # second-stage calls: the ARGUMENT is itself the result of a library function (objects shared between a result and
    # its parts - e.g. one Alternative object in several rules after unit-rule elimination - only exist there)
    for i, RG in enumerate(P['cfg'][:6]):
        for (pre_name, pre) in (('cfg_eliminate_unit_rules', ca.cfg_eliminate_unit_rules), ('cfg_remove_epsilon_rules', ca.cfg_remove_epsilon_rules),
                                ('cfg_apply_chomsky/3', lambda G: nc.cfg_apply_chomsky(G, 3, 'T'))):
            B = [lambda RG=RG, pre=pre: pre(adapt.build_cfg(RG))]
            for f in ('cfg_make_rules_of_length_two', 'cfg_eliminate_terminals', 'cfg_to_chomsky', 'cfg_eliminate_unit_rules', 'cfg_remove_epsilon_rules', 'cfg_add_new_start_variable'):
                add('%s(after %s)#%d' % (f, pre_name, i), getattr(ca, f), B, d_cfg)
            add('cfg_words_up_to_n(after %s)#%d' % (pre_name, i), ca.cfg_words_up_to_n, B + [lambda: 3], d_val)
    for i, R in enumerate(P['dfa'][:5]):
        for (pre_name, pre) in (('dfa_complement', da.dfa_complement), ('dfa_remove_unreachable_states', da.dfa_remove_unreachable_states), ('dfa_no_extend', da.dfa_no_extend)):
            B = [lambda R=R, pre=pre: pre(adapt.build_dfa(R))]
            for f in ('dfa_minimize', 'dfa_quotient', 'dfa_hopfcroft', 'dfa_complement', 'dfa_reverse', 'dfa_make_total', 'dfa_no_prefix'):
                add('%s(after %s)#%d' % (f, pre_name, i), getattr(da, f), B, d_fa)
        B = [lambda R=R: da.dfa_reverse(adapt.build_dfa(R))]
        for (f, fn) in (('nfa_to_dfa', na.nfa_to_dfa), ('nfa_repetition', na.nfa_repetition)):
            add('%s(after dfa_reverse)#%d' % (f, i), fn, B, d_fa)
    for i, RP in enumerate(P['pda'][:4]):
        B = [lambda RP=RP: pa.pda_to_push_pop(adapt.build_pda(RP, ''))]
        add('pda_to_accept_on_empty_stack(after pda_to_push_pop)#%d' % i, pa.pda_to_accept_on_empty_stack, B, d_pda)
        add('pda_to_cfg(after pda_to_push_pop)#%d' % i, pa.pda_to_cfg, B, d_cfg)
    # finite-language helpers and compare_languages
    L1, L2 = {'', 'a', 'ab', 'abb', 'ba'}, {'a', 'b', 'ab'}
    for f in ('union', 'intersection', 'symmetric_difference', 'concatenation'):
        add('language.%s' % f, getattr(la, f), [lambda: set(L1), lambda: set(L2)], d_val)
    for f in ('language_reverse', 'language_no_prefix', 'language_no_extend'):
        add('language.%s' % f, getattr(la, f), [lambda: set(L1)], d_val)
    add('compare_languages', lg.compare_languages, [lambda: set(L1), lambda: set(L2)], d_feedback)
    add('compare_languages/rev', lg.compare_languages, [lambda: set(L2), lambda: set(L1)], d_feedback)
    if with_checkers:
        C.extend(checker_calls(P))
    return C


def with_limit(fn, limit):
    def f(*args):
        from gambatools.global_settings import GambaTools
        old = GambaTools.pda_epsilon_closure_max_iterations
        GambaTools.pda_epsilon_closure_max_iterations = limit
        try:
            return fn(*args)
        finally:
            GambaTools.pda_epsilon_closure_max_iterations = old
    f.__name__ = fn.__name__
    return f


def verdict(fn):
    def f(*args):
        with common.captured() as buf:
            fn(*args)
        return common.verdict_of(buf.getvalue())
    f.__name__ = getattr(fn, '__name__', 'checker')
    return f


def checker_calls(P):
    import gambatools.notebook as nb
    import gambatools.notebook_dfa as nd
    import gambatools.notebook_nfa2dfa as nn
    import gambatools.notebook_chomsky as nc
    import gambatools.notebook_cfg as ng
    rng = random.Random('C19-checker-texts')
    out = []
    R = P['dfa'][2]
    text = txt.render_fa(R, 'dfa', None, dict(txt.PLAIN), rng)[0]
    words = exercises.wl(fa.language_upto(R, 4))
    wrong = txt.render_fa((R[0], R[1], R[2], R[3], tuple(q for q in R[0] if q not in R[4])), 'dfa', None, dict(txt.PLAIN), rng)[0]
    out.append(('check_dfa_language_from_words/right', verdict(nb.check_dfa_language_from_words), [lambda: text, lambda: words, lambda: 4], d_val))
    out.append(('check_dfa_language_from_words/wrong', verdict(nb.check_dfa_language_from_words), [lambda: wrong, lambda: words, lambda: 4], d_val))
    out.append(('check_dfa_complement/right', verdict(nd.check_dfa_complement), [lambda: wrong, lambda: text], d_val))
    out.append(('check_dfa_complement/wrong', verdict(nd.check_dfa_complement), [lambda: text, lambda: text], d_val))
    out.append(('check_dfa_minimal/original', verdict(nd.check_dfa_minimal), [lambda: text, lambda: text, lambda: 5], d_val))
    R2 = fag.rename(P['dfa'][1], {q: 'r' + q for q in P['dfa'][1][0]})
    if R2[1] == R[1]:
        t2 = txt.render_fa(R2, 'dfa', None, dict(txt.PLAIN), rng)[0]
        from vt.props.c12 import product_ref
        pu = txt.render_fa(product_ref(R, R2, 'union'), 'dfa', None, dict(txt.PLAIN), rng)[0]
        out.append(('check_dfa_union/right', verdict(nd.check_dfa_union), [lambda: pu, lambda: text, lambda: t2, lambda: 5], d_val))
        out.append(('check_dfa_intersection/wrong', verdict(nd.check_dfa_intersection), [lambda: pu, lambda: text, lambda: t2, lambda: 5], d_val))
    (RN, eps, kind) = P['nfa'][1]
    tn = txt.render_fa(RN, 'nfa', 'ε', dict(txt.PLAIN), rng)[0]
    RD, labels = fa.determinize(RN)
    lab = lambda i: '{' + ','.join(sorted(labels[i])) + '}'
    A0 = fa.make([lab(i) for i in RD[0]], RD[1], [(lab(p), a, lab(q)) for (p, a, q) in RD[2]], lab(0), [lab(i) for i in RD[4]])
    ta_ = txt.render_fa(A0, 'dfa', None, dict(txt.PLAIN), rng)[0]
    out.append(('check_nfa2dfa/right', verdict(nn.check_nfa2dfa), [lambda: tn, lambda: ta_], d_val))
    out.append(('check_nfa_language_from_words', verdict(nb.check_nfa_language_from_words), [lambda: tn, lambda: exercises.wl(fa.language_upto(RN, 4)), lambda: 4], d_val))
    rng2 = random.Random('C19-grammar')
    RG = exercises.nondegenerate_grammar(rng2, 3, 6, 3)
    tg = txt.render_simple_cfg(RG, 'ε')
    out.append(('cfg_check_chomsky/0', verdict(nc.cfg_check_chomsky), [lambda: tg, lambda: tg, lambda: 0, lambda: 'T', lambda: 4], d_val))
    out.append(('cfg_check_chomsky/5-wrong', verdict(nc.cfg_check_chomsky), [lambda: tg, lambda: tg, lambda: 5, lambda: 'T', lambda: 4], d_val))
    out.append(('check_cfg_language_from_words', verdict(nb.check_cfg_language_from_words), [lambda: tg, lambda: exercises.wl(cf.language_upto(RG, 3)), lambda: 3], d_val))
    RC = exercises.cnf_grammar(rng2, 3)
    Lc = sorted(cf.language_upto(RC, 4) - {''})
    if Lc:
        from vt.props.c12 import cyk_rows, render_rows
        w = Lc[-1]
        tc = txt.render_simple_cfg(RC, 'ε')
        rows = render_rows(cyk_rows(RC, w))
        out.append(('check_cyk_matrix/right', verdict(ng.check_cyk_matrix), [lambda: tc, lambda: w, lambda: rows], d_val))
        out.append(('check_cfg_derivation/wrong', verdict(ng.check_cfg_derivation), [lambda: tc, lambda: RC[3] + ' => ' + w, lambda: w], d_val))
    t = P['rx'][1] if len(P['rx']) > 1 else ('s', 'a')
    tr = txt.render_regexp_simple(t)
    out.append(('check_regexp_language_from_words', verdict(nb.check_regexp_language_from_words), [lambda: tr, lambda: exercises.wl(rx.denot(t, 3)), lambda: 3], d_val))
    out.append(('check_dfa2regexp/wrong', verdict(nb.check_dfa2regexp), [lambda: text, lambda: tr, lambda: 4], d_val))
    return out


# ---------------------------------------------------------------- execution
def run_call(rec, entry, mode):
    """executes one catalogue entry on fresh arguments; checks immutability; returns digest (or None)"""
    name, fn, builders, digest = entry
    try:
        args = [b() for b in builders]
    except Exception as e:
        rec.inconc('cannot build arguments for %s: %r' % (name.split('#')[0], e))
        return None
    before = [adapt.canon(a) for a in args]
    o = call(fn, *args, _cpu=60)
    after = [adapt.canon(a) for a in args]
    rec.ev('immutability')
    fname = name.split('#')[0].split('/')[0]
    for k, (b, a) in enumerate(zip(before, after)):
        if b != a:
            rec.violation('immut:%s' % fname, '%s changed the observable content of its argument %d' % (fname, k), call=name, before=b, after=a)
    if not o.ok:
        if o.kind == 'exc':
            # an exception is judged by the property of that function; here it is just a value
            return ['raised', type(o.exc).__name__]
        rec.inconc('%s: no answer within the CPU guard' % fname)
        return None
    try:
        return digest(o.value)
    except Exception as e:
        rec.inconc('digest failed for %s: %r' % (fname, e))
        return None


def check_case(rec, case):
    """case: {'part': 'battery'} or {'part': 'random', 'rseed': n}"""
    from gambatools.global_settings import GambaTools
    if case['part'] == 'battery':
        C = catalogue(pool(rec.seed))
        # the ORDER of the calls differs between interpreters (0 natural, 1 reversed, 2/3 two fixed shuffles), the
        # hash seed differs between all of them: the parent compares the digests of every call across interpreters
        order_id = rec.shard % 4
        if order_id == 1:
            C = list(reversed(C))
        elif order_id in (2, 3):
            random.Random('C19-order/%d' % order_id).shuffle(C)
        rec.extra['battery_order'] = order_id
        rec.note_case(case, 'fixed_battery', True)
        first = {}
        for e in C:
            rec.case = {'part': 'battery', 'call': e[0]}
            d1 = run_call(rec, e, 'first')
            d2 = run_call(rec, e, 'repeat')
            rec.ev('repeat_call')
            first[e[0]] = d1
            if d1 is not None and d2 is not None and d1 != d2:
                rec.violation('repeat_call:%s' % e[0].split('#')[0].split('/')[0], 'calling %s again on equal arguments gives a different result' % e[0].split('#')[0], call=e[0], first=d1, second=d2)
            rec.hashes.add(h64(('battery', e[0])))
        # reversed order: every call now runs after all the other library calls
        for e in reversed(C):
            rec.case = {'part': 'battery', 'call': e[0], 'order': 'reversed'}
            d = run_call(rec, e, 'reversed')
            rec.ev('history_order')
            if d is not None and first[e[0]] is not None and d != first[e[0]]:
                rec.violation('history:%s' % e[0].split('#')[0].split('/')[0], '%s gives a different result after other library calls' % e[0].split('#')[0], call=e[0], first=first[e[0]], later=d)
        old = GambaTools.enable_logging
        try:
            GambaTools.enable_logging = True
            for e in C:
                rec.case = {'part': 'battery', 'call': e[0], 'logging': True}
                with common.captured():
                    d = run_call(rec, e, 'logging')
                rec.ev('logging_toggle')
                if d is not None and first[e[0]] is not None and d != first[e[0]]:
                    rec.violation('logging:%s' % e[0].split('#')[0].split('/')[0], '%s gives a different result with logging switched on' % e[0].split('#')[0], call=e[0], quiet=first[e[0]], logging=d)
        finally:
            GambaTools.enable_logging = old
        rec.extra['battery_digests'] = {k: h64(v) for k, v in first.items()}
        rec.extra['battery_values'] = {k: jsonable(v) if len(repr(v)) < 300 else h64(v) for k, v in first.items()}
        rec.ev('battery_digest', len(first))
        return
    rng = random.Random(case['rseed'])
    P = random_pool(rng)
    C = catalogue(P, with_checkers=False)
    rec.note_case(case, 'random_operands', True)
    for e in C:
        rec.case = {'part': 'random', 'rseed': case['rseed'], 'call': e[0]}
        d1 = run_call(rec, e, 'first')
        d2 = run_call(rec, e, 'repeat')
        rec.ev('repeat_call')
        if d1 is not None and d2 is not None and d1 != d2:
            rec.violation('repeat_call:%s' % e[0].split('#')[0].split('/')[0], 'calling %s again on equal arguments gives a different result' % e[0].split('#')[0], call=e[0], first=d1, second=d2)
        old = GambaTools.enable_logging
        try:
            GambaTools.enable_logging = True
            with common.captured():
                d3 = run_call(rec, e, 'logging')
        finally:
            GambaTools.enable_logging = old
        rec.ev('logging_toggle')
        if d1 is not None and d3 is not None and d1 != d3:
            rec.violation('logging:%s' % e[0].split('#')[0].split('/')[0], '%s gives a different result with logging switched on' % e[0].split('#')[0], call=e[0], quiet=d1, logging=d3)
        rec.hashes.add(h64(('random', case['rseed'], e[0])))


def cross_shard(results):
    """parent side: the fixed battery must give the same digest in every interpreter (they differ in
    PYTHONHASHSEED and in the order in which the calls were made)"""
    by = {}
    vals = {}
    for d in results:
        ex = d.get('extra') or {}
        order = ex.get('battery_order')
        for k, v in (ex.get('battery_digests') or {}).items():
            by.setdefault(k, {}).setdefault(v, []).append((d['hashseed'], order))
            vals.setdefault(k, {})[v] = (ex.get('battery_values') or {}).get(k)
    out = []
    for k, m in by.items():
        if len(m) > 1:
            fname = k.split('#')[0].split('/')[0]
            # same call order but different results -> the hash seed; otherwise the order of earlier calls
            per_order = {}
            for dig, lst in m.items():
                for (hs, order) in lst:
                    per_order.setdefault(order, set()).add(dig)
            if any(len(v) > 1 for v in per_order.values()):
                key, why = 'hash_seed:%s' % fname, 'in interpreters with different PYTHONHASHSEED (same order of calls)'
            else:
                key, why = 'history:%s' % fname, 'depending on the order of the earlier library calls in the interpreter'
            out.append((key, '%s gives different results %s' % (fname, why),
                        {'call': k, 'results': {str(v[:4]): vals[k][h] for h, v in m.items()}}))
    return out, {'battery_calls_compared': len(by), 'interpreters_compared': len(results)}


def gen_cases(rec, rng, tier):
    yield {'part': 'battery'}
    for _ in range(40 if tier == 'thorough' else 6):
        yield {'part': 'random', 'rseed': rng.randrange(10 ** 9)}


def run(rec, rng, tier):
    import sys
    sys.setrecursionlimit(20000)
    rc = common.replay_case()
    if rc is not None:
        if rc.get('part') == 'random':
            check_case(rec, {'part': 'random', 'rseed': rc['rseed']})
        else:
            check_case(rec, {'part': 'battery'})
        return
    for case in gen_cases(rec, rng, tier):
        check_case(rec, case)
