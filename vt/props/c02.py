"""C02 - bounded language enumeration is exact for all six formalisms and for generate_language."""
from vt.props import common
from vt.props.common import call, report_failure, selfcheck
from vt import adapt, env
from vt.ref import fa, rx, cf, pd, tmr
from vt.gen import fag, rxg, cfgg, pdag
from vt.mon import contracts

PROP = 'C02'
TITLE = 'bounded language enumeration'
SHARDS = {'quick': 16, 'thorough': 32}
TIMEOUT = {'quick': 420, 'thorough': 3600}
REQUIRED = ['dfa_words_up_to_n', 'nfa_words_up_to_n', 'pda_words_up_to_n', 'tm_words_up_to_n', 'cfg_words_up_to_n', 'regexp_words_up_to_n', 'generate_language']
EXHAUSTIVE_NOTE = ('all total DFAs <=3 states/<=2 symbols, all NFAs <=2 states/<=2 symbols+eps, all regexp trees <=5 nodes, all grammars with {S,A},{a,b}, <=2 rules: each '
                   'with every bound n in 0..4; PDAs, TMs and larger objects are sampled')
RULE = ('cases are (object, n): objects of the six kinds from the generators of C01/C05/C07/C09/C11 (enumerated small scopes, seeded random, hostile families, shipped examples), '
        'bounds n in {0,1,2,3,4} (up to 6 thorough), TM step budgets {0,1,5,50,1000}, PDA closure limits {3,10,50,1000} and, on PDAs with a large finite closure, {1500,5000,100000}. The deciding oracle is the property\'s own definition: '
        'the library\'s acceptance test filtered over an independent enumeration of all words of length <= n; for PDAs equality is demanded only when the closure monitor saw '
        'no truncated closure, otherwise inclusion in the exact language. distinct = (object, n, settings); non-trivial = n >= 1 and the enumerated set is neither empty nor all words')
ASSUMPTIONS = [
    'the matching acceptance test is taken as given here (its own correctness is C01/C05/C07/C09/C11)',
    'PDA premise decided per execution by the closure-truncation monitor (true closure recomputed up to limit+1 configurations)',
]

_REC = None
_CUR = {'premise': True}


def snap_closure(R):
    return [(r.q, tuple(r.stack)) for r in R]


def post_pda_epsilon_closure(P, R, result, OLD):
    from gambatools.global_settings import GambaTools
    limit = GambaTools.pda_epsilon_closure_max_iterations
    _, complete = pd.true_eps_closure(adapt.pda_ref(P), OLD.pre, limit)
    _REC.counters['closures_exact_regime' if complete else 'closures_truncated_regime'] += 1
    if not complete:
        _CUR['premise'] = False
    return True


def install(rec):
    global _REC
    _REC = rec
    contracts.import_all()
    contracts.install('gambatools.pda_algorithms', 'pda_epsilon_closure', post=post_pda_epsilon_closure, snapshot=snap_closure)


def judge(rec, fname, got, expected, n, strict=True, exact=None, **details):
    rec.ev(fname)
    if not isinstance(got, (set, frozenset)) or not all(isinstance(w, str) for w in got):
        rec.violation(fname + ':not_a_set_of_words', '%s did not return a set of words' % fname, observed=repr(got)[:200], **details)
        return
    got = set(got)
    too_long = sorted(w for w in got if len(w) > n)
    if too_long:
        rec.violation(fname + ':word_longer_than_n', '%s(X, %d) contains a word longer than n' % (fname, n), words=too_long[:3], n=n, **details)
        return
    if strict:
        extra = sorted(got - expected, key=lambda w: (len(w), w))
        missing = sorted(expected - got, key=lambda w: (len(w), w))
        if extra:
            rec.violation(fname + ':extra_word', '%s(X, %d) contains a word the acceptance test rejects' % (fname, n), words=extra[:3], n=n, **details)
        elif missing:
            rec.violation(fname + ':missing_word', '%s(X, %d) misses a word the acceptance test accepts' % (fname, n), words=missing[:3], n=n, **details)
    else:
        extra = sorted(got - exact, key=lambda w: (len(w), w))
        if extra:
            rec.violation(fname + ':unsound_word', '%s(X, %d) contains a word without accepting computation' % (fname, n), words=extra[:3], n=n, **details)


def check_case(rec, case):
    import gambatools.dfa_algorithms as da
    import gambatools.nfa_algorithms as na
    import gambatools.pda_algorithms as pa
    import gambatools.tm_algorithms as ta
    import gambatools.cfg_algorithms as ca
    import gambatools.regexp_algorithms as ra
    import gambatools.language_generator as lg
    from gambatools.global_settings import GambaTools
    kind = case['kind']
    ns = case['ns']
    R = case['ref']
    rec.case = case
    if kind == 'pda' and case['limit'] > 10 and not case.get('keep_limit'):
        # a PDA whose epsilon closures explode makes the enumerator itself infeasible for large
        # limits (limit^2 work per symbol and configuration): keep those to small limits
        _, small = pd.true_eps_closure(R, [(R[4], ())], 40)
        if not small:
            case = dict(case, limit=10)
            rec.case = case
            rec.counters['pda_limit_reduced_for_exploding_closure'] += 1
    if kind == 'dfa':
        X = adapt.build_dfa(R, scramble=case.get('scr'))
        Sigma = R[1]
        acc = lambda w: da.dfa_accepts_word(X, w)
        enum = lambda n: da.dfa_words_up_to_n(X, n)
        fname = 'dfa_words_up_to_n'
    elif kind == 'nfa':
        X = adapt.build_nfa(R, case.get('eps', ''), case.get('container', 'defaultdict_set'), scramble=case.get('scr'))
        Sigma = R[1]
        acc = lambda w: na.nfa_accepts_word(X, w)
        enum = lambda n: na.nfa_words_up_to_n(X, n)
        fname = 'nfa_words_up_to_n'
    elif kind == 'rx':
        X = adapt.build_rx(R)
        Sigma = tuple(sorted(rx.symbols(R))) or ('a',)
        acc = lambda w: ra.regexp_accepts_word(X, w)
        enum = lambda n: ra.regexp_words_up_to_n(X, n)
        fname = 'regexp_words_up_to_n'
    elif kind == 'cfg':
        X = adapt.build_cfg(R)
        Sigma = R[1]
        acc = lambda w: ca.cfg_accepts_word(X, w)
        enum = lambda n: ca.cfg_words_up_to_n(X, n)
        fname = 'cfg_words_up_to_n'
    elif kind == 'tm':
        X = adapt.build_tm(R)
        Sigma = R[1]
        k = case['max_steps']
        acc = lambda w: ta.tm_accepts_word(X, w, k) is True
        enum = lambda n: ta.tm_words_up_to_n(X, n, k)
        fname = 'tm_words_up_to_n'
    elif kind == 'pda':
        X = adapt.build_pda(R, case.get('eps', ''), scramble=case.get('scr'))
        Sigma = R[1]
        acc = lambda w: pa.pda_accepts_word(X, w)
        enum = lambda n: pa.pda_words_up_to_n(X, n)
        fname = 'pda_words_up_to_n'
    else:
        raise ValueError(kind)
    old = GambaTools.pda_epsilon_closure_max_iterations
    nontrivial = False
    try:
        if kind == 'pda':
            GambaTools.pda_epsilon_closure_max_iterations = case['limit']
        for round_ in (0, 1):
            if round_ == 1:
                # the same OBJECT after an in-place change: enumerate again; the acceptance test (asked again as well) is the
                # yardstick, so an enumerator that remembers anything about the object from the first round is exposed
                if not case.get('requery') or not _mutate_in_place(kind, X, case):
                    break
                ns = [n for n in ns if n <= 4][-2:]
                rec.counters['requery_after_in_place_change'] += 1
                if kind == 'pda':
                    R = adapt.pda_ref(X)
            nmax = max(ns)
            _CUR['premise'] = True
            accepted = set()
            ok = True
            if case.get('oracle_language') and round_ == 0:
                # alphabets too large for 'all words up to n': the reference model gives the language, the acceptance test is
                # asked for its members and for near misses only
                Lref = set(cf.language_upto(R, nmax))
                cand = sorted(Lref) + [w[:-1] for w in sorted(Lref) if w] + [w + w[-1:] for w in sorted(Lref) if len(w) < nmax]
            else:
                cand = fa.words_upto(Sigma, nmax)
            for w in cand:
                o = call(acc, w, _cpu=10)
                if o.kind == 'timeout':
                    rec.inconc('acceptance test exceeded the CPU guard')
                    ok = False
                    break
                if not o.ok:
                    rec.inconc('acceptance test raised %s (judged under its own property)' % type(o.exc).__name__)
                    ok = False
                    break
                if o.value:
                    accepted.add(w)
            if not ok:
                rec.note_case(case, case['cls'], False)
                return
            if case.get('oracle_language') and round_ == 0:
                if accepted != Lref:
                    rec.inconc('acceptance test and reference language differ (judged under C07)')
                    break
            acc_premise = _CUR['premise']
            exact = None
            for n in ns:
                expected = {w for w in accepted if len(w) <= n}
                total = sum(len(Sigma) ** i for i in range(n + 1))
                if n >= 1 and 0 < len(expected) < total:
                    nontrivial = True
                for (f, label) in ((enum, fname), (lambda n_: lg.generate_language(X, n_), 'generate_language')):
                    if label == 'generate_language' and kind == 'tm' and case['max_steps'] != 1000:
                        continue
                    _CUR['premise'] = True
                    o = call(f, n, _cpu=5 if kind == 'pda' else 20)
                    if o.kind == 'timeout' and kind in ('cfg', 'rx', 'pda'):
                        rec.inconc('enumerator exceeded the CPU guard')
                        continue
                    if not o.ok:
                        report_failure(rec, o, label, n=n, kind=kind, after_in_place_change=bool(round_))
                        continue
                    strict = True
                    if kind == 'pda':
                        strict = acc_premise and _CUR['premise']
                        rec.counters['pda_exact_regime' if strict else 'pda_truncated_regime'] += 1
                        if not strict and exact is None:
                            exact = pd.language_upto(R, nmax)
                    if label == 'generate_language':
                        rec.ev(fname.replace('_words_up_to_n', '') + '/generate_language')
                    judge(rec, label if label == 'generate_language' else fname, o.value, expected, n, strict=strict,
                          exact=None if strict else {w for w in exact if len(w) <= n}, kind=kind, after_in_place_change=bool(round_))
    finally:
        GambaTools.pda_epsilon_closure_max_iterations = old
    rec.note_case(case, case['cls'], nontrivial)


def _mutate_in_place(kind, X, case):
    import random
    from vt.rec import h64
    r = random.Random(h64(jsonable_case(case)))
    try:
        if kind == 'dfa':
            Q = sorted(X.Q)
            X.F ^= {r.choice(Q)}
            keys = sorted(X.delta)
            if keys:
                X.delta[r.choice(keys)] = r.choice(Q)
        elif kind == 'nfa':
            Q = sorted(X.Q)
            X.F ^= {r.choice(Q)}
            if X.Sigma:
                key = (r.choice(Q), r.choice(sorted(X.Sigma)))
                X.delta[key] = set(X.delta.get(key, set())) | {r.choice(Q)}
        elif kind == 'pda':
            Q = sorted(X.Q)
            X.F ^= {r.choice(Q)}
            if X.Sigma:
                key = (r.choice(Q), r.choice(sorted(X.Sigma)), X.epsilon)
                X.delta[key] = set(X.delta.get(key, set())) | {(r.choice(Q), X.epsilon)}
        elif kind == 'tm':
            keys = sorted(X.delta)
            if not keys:
                return False
            k = r.choice(keys)
            (q, b, d) = X.delta[k]
            X.delta[k] = (r.choice([X.q_accept, X.q_reject]), b, d)
        elif kind == 'cfg':
            if len(X.R) >= 2:
                X.R.pop(r.randrange(len(X.R)))
            others = sorted(v for v in X.V if v != X.S)
            if others and r.random() < 0.5:
                X.S = others[0]
        else:
            return False
    except Exception:
        return False
    return True


def jsonable_case(case):
    from vt.rec import jsonable
    return jsonable({k: v for k, v in case.items()})


def gen_cases(rec, rng, tier):
    thorough = tier == 'thorough'
    ns = [0, 1, 2, 3, 4]
    big = [0, 1, 2, 4, 6] if thorough else [0, 1, 3, 5]
    # exhaustive small scopes
    for R in common.shard_slice(fag.enum_dfas(3, 2), rec):
        yield {'kind': 'dfa', 'cls': 'enum_dfa', 'ref': R, 'ns': ns}
    for i, R in enumerate(common.shard_slice(fag.enum_nfas(2, 2), rec)):
        yield {'kind': 'nfa', 'cls': 'enum_nfa', 'ref': R, 'ns': ns, 'eps': ('', '_')[i % 2], 'container': adapt.NFA_KINDS[i % 5]}
    for t in common.shard_slice(rxg.enum_trees(5), rec):
        yield {'kind': 'rx', 'cls': 'enum_tree', 'ref': t, 'ns': ns}
    for t in common.shard_slice(rxg.enum_trees(5, rxg.LEAVES01), rec):
        yield {'kind': 'rx', 'cls': 'enum_tree_digit_symbols', 'ref': t, 'ns': ns}
    for RG in common.shard_slice(cfgg.enum_grammars(2), rec):
        yield {'kind': 'cfg', 'cls': 'enum_grammar', 'ref': RG, 'ns': ns}
    # hostile families
    for (cls, R) in fag.hostile_nfas(rng):
        if rec.shard % 4 == 0:
            yield {'kind': 'nfa', 'cls': cls, 'ref': R, 'ns': ns, 'eps': 'ε', 'container': adapt.NFA_KINDS[rng.randrange(5)]}
    for (cls, R) in fag.hostile_dfas(rng):
        if rec.shard % 4 == 1:
            yield {'kind': 'dfa', 'cls': 'dfa_' + cls, 'ref': R, 'ns': big}
    for (cls, RG) in cfgg.hostile_grammars(rng):
        if rec.shard % 4 == 2:
            yield {'kind': 'cfg', 'cls': 'cfg_' + cls, 'ref': RG, 'ns': ns if not thorough else [0, 1, 2, 3, 5]}
    fam = list(pdag.hostile_pdas())
    for i, (cls, RP) in enumerate(fam):
        for j, lim in enumerate((3, 10, 50, 1000)):
            if (i + j) % 4 == rec.shard % 4 and RP[1]:
                yield {'kind': 'pda', 'cls': 'pda_' + cls, 'ref': RP, 'ns': [0, 1, 2, 3] if lim == 1000 else ns, 'limit': lim, 'eps': ('', '_')[j % 2]}
    for i, (cls, RPa) in enumerate(pdag.concatenation_ambiguous_stacks()):
        if i % 4 == rec.shard % 4:
            yield {'kind': 'pda', 'cls': 'pda_' + cls, 'ref': RPa, 'ns': [0, 1, 2, 3], 'limit': 50, 'eps': ''}
    # closure limits ABOVE the default (round 13, C02_m: an enumerator that freezes the limit at import time): a finite closure of
    # 2^(k+1) configurations is complete under the configured limit, so equality with the acceptance test is required
    for j, (k, lim) in enumerate(((10, 5000), (10, 100000), (9, 1500), (11, 100000))[:4 if thorough else 3]):
        if rec.shard % 4 == j % 4:
            yield {'kind': 'pda', 'cls': 'pda_large_finite_closure_limit_above_default', 'ref': pdag.guess_bits(k), 'ns': [0, 1, 2], 'limit': lim,
                   'eps': ('', '_')[j % 2], 'keep_limit': True}
    if rec.shard == 3:
        for (name, RP, eps) in pdag.shipped_pdas(env.REPO):
            yield {'kind': 'pda', 'cls': 'shipped_' + name, 'ref': RP, 'ns': [0, 1, 2, 3, 4], 'limit': 1000, 'eps': eps}
    # grammars over many terminals with long rules: the normal form needs more than 26 variables (numbered helper names)
    for _ in range(12 if thorough else 2):
        if rec.shard % 4 != 3:
            break
        letters = list('abcdefghijklmnopqrstuvwxyz')
        rng.shuffle(letters)
        alts = []
        i = 0
        while i < len(letters) - 3 and len(alts) < rng.randint(8, 11):
            L_ = rng.choice([2, 3, 3, 4])
            alts.append(tuple(('T', x) for x in letters[i:i + L_]))
            i += L_
        used = sorted({x for alt in alts for (_, x) in alt})
        RGm = cf.make(['S'], used, [('S', alt) for alt in alts], 'S')
        yield {'kind': 'cfg', 'cls': 'many_terminals_long_rules', 'ref': RGm, 'ns': [0, 2, 3, 4], 'oracle_language': True}
    # seeded random
    for _ in range(60 if thorough else 20):
        n = rng.randint(1, 6)
        k = rng.randint(1, 3)
        yield {'kind': 'dfa', 'cls': 'random_dfa', 'requery': True, 'ref': fag.random_dfa(rng, n, k), 'ns': big if k <= 2 else ns}
        yield {'kind': 'nfa', 'cls': 'random_nfa', 'requery': True, 'ref': fag.random_nfa(rng, n, k, eps_density=rng.choice([0, 0.3, 0.8])), 'ns': big if k <= 2 else ns,
               'eps': rng.choice(['', '_', 'ε']), 'container': rng.choice(adapt.NFA_KINDS)}
        t = rxg.random_tree(rng, rng.randint(3, 7), 'ab', bias=rng.choice([None, 'star', 'unit']))
        if rx.size_iter(t) <= 25:
            yield {'kind': 'rx', 'cls': 'random_tree', 'ref': t, 'ns': ns}
        t = rxg.random_tree(rng, rng.randint(3, 6), '01', bias=rng.choice([None, 'star', 'unit']))
        if rx.size_iter(t) <= 25:
            yield {'kind': 'rx', 'cls': 'random_tree_digit_symbols', 'ref': t, 'ns': ns}
        RG = cfgg.random_grammar(rng, rng.randint(1, 5), rng.randint(1, 8), max_rhs=rng.choice([2, 3, 4]), nt=rng.randint(1, 2))
        yield {'kind': 'cfg', 'cls': 'random_grammar', 'requery': True, 'ref': RG, 'ns': ns}
        RG = cfgg.random_cnf(rng, rng.randint(1, 5), rng.randint(0, 6), nt=rng.randint(1, 2))
        yield {'kind': 'cfg', 'cls': 'random_cnf', 'requery': True, 'ref': RG, 'ns': ns if not thorough else [0, 1, 2, 3, 5]}
        yield {'kind': 'cfg', 'cls': 'multichar_variable_names', 'ref': cfgg.multichar_renaming(rng, RG), 'ns': ns}
        RG2 = cfgg.random_grammar(rng, rng.randint(2, 5), rng.randint(2, 8), max_rhs=3, nt=2)
        yield {'kind': 'cfg', 'cls': 'multichar_variable_names', 'ref': cfgg.multichar_renaming(rng, RG2), 'ns': ns}
        yield {'kind': 'cfg', 'cls': 'ambiguous_name_concatenation', 'ref': cfgg.ambiguous_concat_cnf(rng), 'ns': [0, 1, 2, 3]}
        yield {'kind': 'cfg', 'cls': 'ambiguous_long_rule_tails', 'ref': cfgg.ambiguous_long_rules(rng), 'ns': [0, 4]} if rng.random() < 0.4 else {'kind': 'cfg', 'cls': 'ambiguous_name_concatenation', 'ref': cfgg.ambiguous_concat_cnf(rng), 'ns': [2, 3]}
        for tw in cfgg.start_twins(RG2)[:2]:
            yield {'kind': 'cfg', 'cls': 'same_rules_other_start_variable', 'ref': tw, 'ns': [0, 2, 3]}
        RP = pdag.random_pda(rng, rng.randint(1, 4), rng.randint(1, 2), rng.randint(0, 3), rng.randint(1, 8))
        lim = rng.choice([3, 10, 50, 1000])
        yield {'kind': 'pda', 'cls': 'random_pda', 'requery': True, 'ref': RP, 'ns': [0, 1, 2] if lim == 1000 else ([0, 1, 2, 3] if lim == 50 else ns), 'limit': lim, 'eps': rng.choice(['', '_'])}
        RPc = pdag.colliding_names(rng, RP)
        if RPc is not None:
            yield {'kind': 'pda', 'cls': 'colliding_state_and_stack_names', 'ref': RPc, 'ns': [0, 1, 2, 3], 'limit': 10, 'eps': ''}
        from vt.props.c11 import random_tm
        RT = random_tm(rng, rng.randint(1, 3), rng.randint(0, 2), rng.randint(1, 2), rng.choice(['_', '□']), p_def=rng.choice([0.5, 0.8, 1.0]))
        yield {'kind': 'tm', 'cls': 'random_tm', 'ref': RT, 'ns': [0, 1, 2, 3], 'max_steps': rng.choice([0, 1, 5, 50, 1000])}
        for _ in range(3):
            RT2 = random_tm(rng, rng.randint(2, 4), rng.randint(0, 2), 2, rng.choice(['_', '□']), p_def=rng.choice([0.8, 1.0]))
            yield {'kind': 'tm', 'cls': 'random_tm', 'ref': RT2, 'ns': [0, 2, 3, 4], 'max_steps': rng.choice([5, 50, 1000])}
    for _ in range(120 if thorough else 40):
        RG = rng.choice([cfgg.random_cnf(rng, rng.randint(2, 6), rng.randint(2, 9), nt=rng.randint(1, 2)), cfgg.redundant_cnf(rng)])
        yield {'kind': 'cfg', 'cls': 'cnf_larger_bounds', 'ref': RG, 'ns': [3, 4, 5, 6] if len(RG[1]) <= 2 else [3, 4]}
    if rec.shard % 4 == 1:
        # zig-zag machines: look at the far end, come back, decide in the middle (palindromes; equal ends)
        Q = ['s', 'ra', 'rb', 'ca', 'cb', 'back', 'qa', 'qr']
        D = [('s', 'a', 'ra', '_', 'R'), ('s', 'b', 'rb', '_', 'R'), ('s', '_', 'qa', '_', 'R'),
             ('ra', 'a', 'ra', 'a', 'R'), ('ra', 'b', 'ra', 'b', 'R'), ('ra', '_', 'ca', '_', 'L'),
             ('rb', 'a', 'rb', 'a', 'R'), ('rb', 'b', 'rb', 'b', 'R'), ('rb', '_', 'cb', '_', 'L'),
             ('ca', 'a', 'back', '_', 'L'), ('ca', '_', 'qa', '_', 'R'), ('cb', 'b', 'back', '_', 'L'), ('cb', '_', 'qa', '_', 'R'),
             ('back', 'a', 'back', 'a', 'L'), ('back', 'b', 'back', 'b', 'L'), ('back', '_', 's', '_', 'R')]
        yield {'kind': 'tm', 'cls': 'zigzag_palindromes', 'ref': tmr.make(Q, 'ab', 'ab_', D, 's', 'qa', 'qr', '_'), 'ns': [0, 1, 3, 4, 5], 'max_steps': 1000}
        yield {'kind': 'tm', 'cls': 'zigzag_palindromes', 'ref': tmr.make(Q, 'ab', 'ab_', D, 's', 'qa', 'qr', '_'), 'ns': [3, 4], 'max_steps': 12}
    if rec.shard == 5:
        from vt.props.c11 import shipped_tm
        try:
            yield {'kind': 'tm', 'cls': 'shipped_tm1', 'ref': shipped_tm(), 'ns': [0, 1, 2, 3], 'max_steps': 1000}
        except Exception:
            pass


def run(rec, rng, tier):
    install(rec)
    import sys
    sys.setrecursionlimit(20000)
    rc = common.replay_case()
    if rc is not None:
        check_case(rec, rc)
        return
    import time
    for case in gen_cases(rec, rng, tier):
        t0 = time.time()
        check_case(rec, common.with_scramble(case))
        rec.extra['seconds:' + case['cls']] = rec.extra.get('seconds:' + case['cls'], 0) + time.time() - t0
