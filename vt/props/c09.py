"""C09 - PDA acceptance: always sound, complete whenever no epsilon closure exceeds the limit."""
from vt.props import common
from vt.props.common import call, report_failure, selfcheck
from vt import adapt, env
from vt.ref import pd, fa
from vt.gen import pdag
from vt.mon import contracts

PROP = 'C09'
TITLE = 'PDA acceptance (sound always, complete below the closure limit)'
SHARDS = {'quick': 16, 'thorough': 32}
TIMEOUT = {'quick': 420, 'thorough': 3600}
REQUIRED = ['pda_accepts_word', 'pda_epsilon_closure']
EXHAUSTIVE_NOTE = 'no complete sub-space: PDAs are sampled (seeded random + named families + shipped examples), each with ALL words up to the bound and several closure limits'
RULE = ('cases are (PDA, closure limit): seeded random PDAs (<=4 states, <=2 input, <=3 stack symbols, <=8 moves of kinds push/pop/replace/no-op), named families '
        '(epsilon cycles growing/keeping/shrinking the stack, pop on empty stack, acceptance with non-empty stack, several/no accepting states), the shipped PDAs; '
        'limits from {1,2,3,5,10,50,1000} plus limits above the default (1050..5000) on long epsilon chains / pop loops whose closures have between 1000 and `limit` configurations, set through GambaTools and restored; all words <=4 (5 thorough). For every call a monitor on pda_epsilon_closure decides the '
        'premise "no closure exceeded the limit" by recomputing the true closure up to limit+1 configurations. '
        'distinct = (PDA, limit); non-trivial = the PDA has an epsilon move and a stack-touching move and its language up to the bound is neither empty nor everything')
ASSUMPTIONS = [
    'reference A: exact acceptance by saturation of balanced computations on PDA x word positions (unbounded stack); reference B: configuration BFS with a stack cap, used as a one-sided cross-check',
    'completeness is demanded only for executions in which every closure computed had at most `limit` configurations (the property\'s premise), soundness always',
]

_REC = None
_CUR = {'premise': True, 'closures': 0, 'active': False}


def snap_closure(R):
    return [(r.q, tuple(r.stack)) for r in R]


def post_pda_epsilon_closure(P, R, result, OLD):
    rec = _REC
    rec.ev('pda_epsilon_closure')
    from gambatools.global_settings import GambaTools
    limit = GambaTools.pda_epsilon_closure_max_iterations
    RP = adapt.pda_ref(P)
    true, complete = pd.true_eps_closure(RP, OLD.pre, limit)
    got = {(r.q, tuple(r.stack)) for r in result}
    if complete:
        rec.counters['closures_exact_regime'] += 1
        if got != true:
            rec.counters['untruncated_closure_differs_from_true_closure'] += 1
            _CUR['closure_bug'] = True
    else:
        rec.counters['closures_truncated_regime'] += 1
        _CUR['premise'] = False
    _CUR['closures'] += 1
    return True


def pre_accepts(args, kwargs):
    _CUR['premise'] = True
    _CUR['closures'] = 0
    _CUR['closure_bug'] = False


def post_pda_accepts_word(P, w, result):
    rec = _REC
    rec.ev('pda_accepts_word')
    RP = adapt.pda_ref(P)
    if not set(w) <= set(RP[1]):
        return True
    exp = exact_accepts(RP, w)
    from gambatools.global_settings import GambaTools
    limit = GambaTools.pda_epsilon_closure_max_iterations
    if result is not True and result is not False:
        rec.violation('pda_accepts_word:not_boolean', 'pda_accepts_word returned %r' % (result,))
    elif result and not exp:
        rec.violation('pda_accepts_word:unsound', 'pda_accepts_word answers True for a word without accepting computation', word=w, limit=limit)
    elif exp and not result:
        if _CUR['premise']:
            rec.violation('pda_accepts_word:incomplete_below_limit', 'pda_accepts_word answers False although an accepting computation exists and no closure exceeded the limit',
                          word=w, limit=limit, closures=_CUR['closures'])
        else:
            rec.counters['false_with_truncated_closure(allowed)'] += 1
    rec.counters['premise_held' if _CUR['premise'] else 'premise_failed'] += 1
    return True


def exact_accepts(RP, w):
    """a PDA without stack-touching moves is an NFA: use the (much faster) finite-automaton reference,
    otherwise the saturation oracle"""
    if all(u is None and v is None for (_, _, u, _, v) in RP[3]):
        R = fa.make(RP[0], RP[1], [(p, a, q) for (p, a, _, q, _) in RP[3]], RP[4], RP[5])
        return fa.accepts_graph(R, w)
    return pd.accepts(RP, w)


def install(rec):
    global _REC
    _REC = rec
    contracts.import_all()
    contracts.install('gambatools.pda_algorithms', 'pda_epsilon_closure', post=post_pda_epsilon_closure, snapshot=snap_closure)
    contracts.install('gambatools.pda_algorithms', 'pda_accepts_word', post=post_pda_accepts_word, pre=pre_accepts)


def check_case(rec, case):
    import gambatools.pda_algorithms as pa
    from gambatools.global_settings import GambaTools
    RP = case['ref']
    n = case['n']
    words = list(fa.words_upto(RP[1], n)) + list(case.get('words', ()))
    L = {w for w in words if exact_accepts(RP, w)}
    has_eps = any(a is None for (_, a, _, _, _) in RP[3])
    has_stack = any(u is not None or v is not None for (_, _, u, _, v) in RP[3])
    rec.note_case(case, case['cls'], has_eps and has_stack and 0 < len(L) < len(words))
    # oracle cross-check (one sided): capped configuration BFS
    for w in (words[:12] if len(RP[0]) < 100 else []):
        b = pd.accepts_capped(RP, w, 6, 20000)
        if b is True:
            selfcheck(rec, w in L, (RP, w))
        elif b is False and w in L:
            b2 = pd.accepts_capped(RP, w, 12, 60000)
            rec.counters['oracle_B_needs_higher_cap' if b2 else 'oracle_B_undetermined'] += 1
    o = call(adapt.build_pda, RP, case.get('eps', ''), scramble=case.get('scr'))
    if not o.ok:
        rec.inconc('cannot build PDA: %r' % (o.exc,))
        return
    P = o.value
    old = GambaTools.pda_epsilon_closure_max_iterations
    try:
        GambaTools.pda_epsilon_closure_max_iterations = case['limit']
        for w in words:
            o = call(pa.pda_accepts_word, P, w)
            if o.kind == 'timeout' and case['limit'] > 50 and not pd.true_eps_closure(RP, [(RP[4], ())], 60)[1]:
                # exploding closures with a large limit: limit^2-ish work per letter by design, not a hang
                rec.inconc('acceptance test exceeded the CPU guard on a PDA with exploding closures at a large limit')
                break
            if not o.ok:
                report_failure(rec, o, 'pda_accepts_word', word=w, limit=case['limit'])
                break
        # the same questions with the library's global logging switch on (round 14, C09_l: a trace line that consumes the generator of
        # successor configurations); judged by the same contract, trace output swallowed
        old_log = GambaTools.enable_logging
        try:
            GambaTools.enable_logging = True
            for w in words[:24]:
                with common.captured():
                    o = call(pa.pda_accepts_word, P, w)
                rec.counters['calls_with_logging_on'] += 1
                if not o.ok:
                    if o.kind != 'timeout':
                        report_failure(rec, o, 'pda_accepts_word', word=w, limit=case['limit'], logging=True)
                    break
        finally:
            GambaTools.enable_logging = old_log
        if case.get('requery') and len(RP[0]) >= 2:
            # the same OBJECT after an in-place change (acceptance toggled, a move dropped)
            q = sorted(P.Q)[-1]
            P.F ^= {q}
            keys = sorted(k for k in P.delta if P.delta[k])
            if keys:
                P.delta[keys[0]].pop()
            for w in words[:16]:
                o = call(pa.pda_accepts_word, P, w)
                if not o.ok:
                    report_failure(rec, o, 'pda_accepts_word', word=w, limit=case['limit'], after_in_place_change=True)
                    break
    finally:
        GambaTools.pda_epsilon_closure_max_iterations = old


def gen_cases(rec, rng, tier):
    thorough = tier == 'thorough'
    n = 5 if thorough else 4
    limits = (1, 2, 3, 5, 10, 50, 1000)
    fam = list(pdag.hostile_pdas())
    for i, (cls, RP) in enumerate(fam):
        for j, lim in enumerate(limits):
            if (i + j) % 4 == rec.shard % 4:
                yield {'cls': cls, 'ref': RP, 'n': n if lim < 1000 else 3, 'limit': lim, 'eps': ('', '_', 'ε')[(i + j) % 3]}
    # limits ABOVE the default, with closures whose size lies between the default and the limit
    # ("whatever value that limit is set to"): long chains of epsilon moves, optionally pushing
    if rec.shard % 4 == 2:
        for (length, lim) in ((1100, 1200), (1100, 1050), (1500, 5000), (1200, 1000), (999, 1000)):
            Q = ['c%04d' % i for i in range(length + 1)]
            T = [(Q[i], None, None, Q[i + 1], None) for i in range(length)] + [(Q[length], 'a', None, Q[length], None)]
            yield {'cls': 'long_epsilon_chain', 'ref': pd.make(Q, 'a', '', T, Q[0], [Q[length]]), 'n': 1, 'limit': lim, 'eps': ''}
        for (length, lim) in ((1100, 1300), (1050, 2000)):
            Q = ['q0', 'q1', 'q2']
            # push X `length` times is impossible without a counter; instead: pop-all loop after reading a's
            T = [('q0', 'a', None, 'q0', 'X'), ('q0', 'b', None, 'q1', None), ('q1', None, 'X', 'q1', None), ('q1', None, None, 'q2', None)]
            yield {'cls': 'long_pop_loop', 'ref': pd.make(Q, 'ab', 'X', T, 'q0', ['q2']), 'n': 0, 'limit': lim, 'eps': '', 'words': ['a' * length + 'b']}
    for i, (cls, RPa) in enumerate(pdag.concatenation_ambiguous_stacks()):
        if i % 4 == rec.shard % 4:
            for lim in (10, 1000):
                yield {'cls': cls, 'ref': RPa, 'n': 3 if len(RPa[1]) > 2 else 4, 'limit': lim, 'eps': ''}
    # dense stack-neutral epsilon moves: a clique of k states has k configurations in its closure but k*k enabled moves; the limit
    # counts expanded configurations, so with k <= limit < k*k the closure must still be complete
    if rec.shard % 4 == 0:
        for (k, lims) in ((4, (4, 5, 10)), (6, (6, 10, 30)), (36, (1000,))):
            Q = ['e%02d' % i for i in range(k)] + ['acc']
            T = [(p, None, None, q, None) for p in Q[:k] for q in Q[:k]] + [(Q[k - 1], None, None, 'acc', None), (Q[0], 'a', None, Q[1 % k], None)]
            RPk = pd.make(Q, 'a', ['X'], T, Q[0], ['acc'])
            for lim in lims:
                yield {'cls': 'dense_epsilon_clique_%d' % k, 'ref': RPk, 'n': 2, 'limit': lim, 'eps': ''}
    # long words on counting / matching PDAs (stacks of 8..40 symbols, runs of equal letters)
    if rec.shard % 4 == 3:
        anbn = pd.make(['q0', 'q1', 'q2', 'q3'], 'ab', ['$', 'A'], [('q0', None, None, 'q1', '$'), ('q1', 'a', None, 'q1', 'A'), ('q1', None, None, 'q2', None),
                                                                  ('q2', 'b', 'A', 'q2', None), ('q2', None, '$', 'q3', None)], 'q0', ['q3'])
        pal = pd.make(['p', 'q', 'f'], 'ab', ['A', 'B', '$'], [('p', None, None, 'p', None)][:0] + [('p', 'a', None, 'p', 'A'), ('p', 'b', None, 'p', 'B'), ('p', None, None, 'q', None),
                                                                  ('p', 'a', None, 'q', None), ('p', 'b', None, 'q', None), ('q', 'a', 'A', 'q', None), ('q', 'b', 'B', 'q', None)], 'p', ['q'])
        for (cls, RPl, ws) in (('long_words_anbn', anbn, ['a' * k + 'b' * k for k in (6, 9, 16, 33)] + ['a' * 9 + 'b' * 8, 'a' * 16 + 'b' * 17, 'a' * 12]),
                               ('long_words_palindromes', pal, ['abbaabba', 'ababbbaba', 'aaaaaaaaaaaa', 'abababababa', 'abbabaabba', 'a' * 17, 'ab' * 6])):
            for lim in (50, 1000):
                yield {'cls': cls, 'ref': RPl, 'n': 2, 'limit': lim, 'eps': '', 'words': ws}
    if rec.shard == 1:
        for (name, RP, eps) in pdag.shipped_pdas(env.REPO):
            yield {'cls': 'shipped_' + name, 'ref': RP, 'n': 4, 'limit': 1000, 'eps': eps}
            yield {'cls': 'shipped_' + name, 'ref': RP, 'n': 4, 'limit': 10, 'eps': eps}
    for _ in range(800 if thorough else 90):
        RP = pdag.random_pda(rng, rng.randint(1, 4), rng.randint(1, 2), rng.randint(0, 3), rng.randint(1, 8), p_eps=rng.choice([0.15, 0.35, 0.6]))
        lim = rng.choice(limits)
        yield {'cls': 'random_pda', 'ref': RP, 'n': n if lim <= 50 else 3, 'limit': lim, 'eps': rng.choice(['', '_', 'ε'])}
        lim2 = rng.choice([l for l in limits if l != lim and l <= 50])
        yield {'cls': 'random_pda', 'ref': RP, 'n': n, 'limit': lim2, 'eps': '', 'requery': True}
        RPc = pdag.colliding_names(rng, RP)
        if RPc is not None:
            yield {'cls': 'colliding_state_and_stack_names', 'ref': RPc, 'n': n, 'eps': '', 'limit': rng.choice([10, 50])}
        RPm = pdag.multichar_stack_symbols(rng, RP)
        if RPm is not None:
            yield {'cls': 'multichar_stack_symbols', 'ref': RPm, 'n': n, 'eps': '', 'limit': rng.choice([10, 50])}
        RPx = pdag.exotic_names(rng, RP)
        if RPx is not None:
            yield {'cls': 'exotic_state_names', 'ref': RPx, 'n': n, 'eps': '', 'limit': rng.choice([10, 50])}


def run(rec, rng, tier):
    install(rec)
    rc = common.replay_case()
    if rc is not None:
        check_case(rec, rc)
        return
    for case in gen_cases(rec, rng, tier):
        check_case(rec, common.with_scramble(case))
