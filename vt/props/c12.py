"""C12 - an exercise checker never prints OK for a wrong answer; reported counterexamples are genuine."""
import os
import random
import re
import shutil
import tempfile

from vt.props import common
from vt.props.common import call
from vt import adapt, env, exercises
from vt.rec import jsonable, short_tb, h64
from vt.ref import fa, cf, pd, rx, tmr, txt
from vt.gen import fag, cfgg, rxg, mut

PROP = 'C12'
TITLE = 'checkers never accept a wrong answer'
SHARDS = {'quick': 16, 'thorough': 32}
TIMEOUT = {'quick': 420, 'thorough': 3600}
FAMILIES = ['language_from_words', 'language_from_file', 'accepts_rejects', 'product', 'complement', 'reverse', 'minimal', 'nfa2dfa', 'dfa2regexp',
            'chomsky', 'cyk', 'derivation', 'automata_checker', 'experimental', 'syntax']
REQUIRED = ['family:' + f for f in FAMILIES] + ['counterexample_words']
EXHAUSTIVE_NOTE = 'no complete sub-space: exercise instances are sampled; per instance the own answer, ~10-30 systematic answer mutants and ill-formed texts are submitted'
RULE = ('cases are (exercise instance, submitted answer): for each checker family a random reference instance, then as answers the reference solution, systematic ANSWER MUTANTS (flip a final state, '
        'retarget / drop / add a transition, add or rename a state, other initial state, drop/add/change a table row or cell, drop/swap a derivation step, wrong last form, changed / added / dropped rule, '
        'answer of the wrong phase, regexp subtree edits) and ILL-FORMED texts. Every mutant is classified right/wrong by the reference models against the exercise criterion (language agreement up to '
        'the checker\'s bound plus the structural requirement its messages state); a violation is OK printed for a wrong answer, or a reported counterexample word that is not a genuine difference / has the '
        'wrong polarity / is not of minimal length within its polarity. distinct = (family, instance, answer text); non-trivial = the answer is a wrong one (the interesting direction)')
ASSUMPTIONS = [
    'criterion per exercise = language agreement on all words up to the checker\'s length bound + the structural requirement stated by the exercise text and feedback messages',
    'a right answer that is rejected is only counted (that direction is C13 for the library\'s own answers)',
    'ill-formed texts are limited to faults that are unambiguous under doc/main.tex',
]

_REC = None


# ---------------------------------------------------------------- infrastructure
def run_checker(fn, *args, **kw):
    with common.captured() as buf:
        o = call(fn, *args, _cpu=60, **kw)
    out = buf.getvalue()
    return common.verdict_of(out) and o.ok, out, o


CE = re.compile(r"word '(.*)' should (not )?be accepted")


def check_counterexample(rec, checker, out, Lans, Lref, minimal=True, **details):
    """Lans / Lref: languages up to the checker's bound (sets)"""
    for m in CE.finditer(out):
        w = '' if m.group(1) == 'ε' else m.group(1)
        rec.ev('counterexample_words')
        should_not = m.group(2) is not None
        A = (Lans - Lref) if should_not else (Lref - Lans)
        if w not in A:
            if w in (Lans ^ Lref):
                rec.violation('%s:counterexample_wrong_polarity' % checker, 'the reported counterexample has the wrong polarity', word=w, message=m.group(0), **details)
            else:
                rec.violation('%s:counterexample_not_a_difference' % checker, 'the reported counterexample is not a word on which answer and reference differ', word=w, message=m.group(0), **details)
        elif minimal and A and len(w) > min(len(x) for x in A):
            rec.violation('%s:counterexample_not_minimal' % checker, 'the reported counterexample is not of minimal length', word=w, shortest=min(A, key=len), **details)


def judge(rec, fam, checker, printed_ok, right, why, out, **details):
    rec.ev('family:' + fam)
    rec.counters['%s:%s' % (checker, 'right' if right else 'wrong')] += 1
    if printed_ok and not right:
        rec.violation('%s:OK_for_wrong_answer:%s' % (checker, why), '%s prints OK for an answer that violates the exercise criterion (%s)' % (checker, why), output=out[:300], **details)
    elif right and not printed_ok:
        rec.counters['%s:right_answer_rejected' % checker] += 1
    h = (fam, checker, jsonable(details.get('answer')), jsonable(details.get('instance')))
    if not right:
        rec.hashes.add(h64(h))


def nfa_text(R, eps, rng, plain=False):
    return txt.render_fa(R, 'nfa', eps, dict(txt.PLAIN) if plain else exercises.layout(rng), rng)[0]


def dfa_text(R, rng, plain=False):
    return txt.render_fa(R, 'dfa', None, dict(txt.PLAIN) if plain else exercises.layout(rng), rng)[0]


def ill_formed_automaton_texts(text, rng):
    lines = text.rstrip('\n').split('\n')
    out = [('no_initial', '\n'.join(l for l in lines if not l.strip().startswith('initial'))),
           ('invalid_symbol_in_declaration', '\n'.join((l + ' b-c') if l.strip().startswith('input_symbols') else l for l in lines) + '\n'),
           ('two_initial_lines', text + 'initial zz1\n'),
           ('incomplete_transition', text + 'zz1 zz2\n'),
           ('empty_text', '')]
    return out


# ---------------------------------------------------------------- families
def fam_language_from_words(rec, rng):
    import gambatools.notebook as nb
    kind = rng.choice(['dfa', 'dfa', 'nfa', 'nfa', 'cfg', 'regexp', 'pda', 'tm'])
    n = rng.choice([3, 4]) if kind in ('cfg', 'regexp', 'pda', 'tm') else rng.choice([3, 4, 5])
    if kind == 'dfa':
        R = exercises.ref_dfa(rng, 4, rng.choice(['ab', 'a']))
        Lref = set(fa.language_upto(R, n))
        m = rng.choice([0, 0, len(R[0]), len(R[0]) + 1])
        answers = [('reference', R)] + mut.fa_mutants(R, rng, extra_word_len=n)
        words = exercises.wl(Lref, rng)
        for (nm, A) in answers:
            ok_struct = fa.well_formed(A) and fa.is_total_dfa(A)
            LA = set(fa.language_upto(A, n)) if ok_struct else set()
            right = ok_struct and LA == Lref and (m == 0 or len(A[0]) <= m)
            why = 'language' if LA != Lref else 'max_states'
            text = dfa_text(A, rng)
            pok, out, o = run_checker(nb.check_dfa_language_from_words, text, words, n, m)
            judge(rec, 'language_from_words', 'check_dfa_language_from_words', pok, right, why, out, answer=text, mutant=nm, instance=(words, n, m))
            check_counterexample(rec, 'check_dfa_language_from_words', out, LA, Lref, answer=text, words=words)
        for (nm, text) in ill_formed_automaton_texts(dfa_text(R, rng, True), rng):
            pok, out, o = run_checker(nb.check_dfa_language_from_words, text, words, n, m)
            judge(rec, 'language_from_words', 'check_dfa_language_from_words', pok, False, 'ill_formed_text:' + nm, out, answer=text, instance=(words, n, m))
    elif kind == 'nfa':
        R = exercises.ref_nfa(rng, 4)
        eps = rng.choice(['_', 'ε'])
        Lref = set(fa.language_upto(R, n))
        m = rng.choice([0, 0, len(R[0]), len(R[0]) + 1])
        words = exercises.wl(Lref, rng)
        for (nm, A) in [('reference', R)] + mut.fa_mutants(R, rng, nfa=True, extra_word_len=n):
            LA = set(fa.language_upto(A, n))
            right = LA == Lref and (m == 0 or len(A[0]) <= m)
            text = nfa_text(A, eps, rng)
            pok, out, o = run_checker(nb.check_nfa_language_from_words, text, words, n, m)
            judge(rec, 'language_from_words', 'check_nfa_language_from_words', pok, right, 'language' if LA != Lref else 'max_states', out, answer=text, mutant=nm, instance=(words, n, m))
            check_counterexample(rec, 'check_nfa_language_from_words', out, LA, Lref, answer=text, words=words)
        for (nm, text) in ill_formed_automaton_texts(nfa_text(R, eps, rng, True), rng):
            pok, out, o = run_checker(nb.check_nfa_language_from_words, text, words, n, m)
            judge(rec, 'language_from_words', 'check_nfa_language_from_words', pok, False, 'ill_formed_text:' + nm, out, answer=text, instance=(words, n, m))
    elif kind == 'cfg':
        RG = exercises.nondegenerate_grammar(rng, 3, 6, 3)
        Lref = set(cf.language_upto(RG, n))
        words = exercises.wl(Lref, rng)
        for (nm, A) in [('reference', RG)] + mut.cfg_mutants(RG, rng, 6):
            if {x for (x, _) in A[2]} != set(A[0]) or not A[2] or A[2][0][0] != A[3]:
                continue          # not expressible in the simple format
            LA = set(cf.language_upto(A, n))
            text = txt.render_simple_cfg(A, 'ε', rng)
            pok, out, o = run_checker(nb.check_cfg_language_from_words, text, words, n)
            judge(rec, 'language_from_words', 'check_cfg_language_from_words', pok, LA == Lref, 'language', out, answer=text, mutant=nm, instance=(words, n))
            check_counterexample(rec, 'check_cfg_language_from_words', out, LA, Lref, answer=text, words=words)
        for (nm, text) in (('no_arrow', 'S a | b\n'), ('empty_text', ''), ('two_arrows', 'S -> a -> b\n'), ('missing_rhs', 'S ->\n')):
            pok, out, o = run_checker(nb.check_cfg_language_from_words, text, words, n)
            judge(rec, 'language_from_words', 'check_cfg_language_from_words', pok, False, 'ill_formed_text:' + nm, out, answer=text, instance=(words, n))
    elif kind == 'regexp':
        t = rxg.random_tree(rng, rng.randint(1, 4), 'ab', bias=rng.choice([None, 'star', 'unit']))
        while rx.size_iter(t) > 12:
            t = rxg.random_tree(rng, rng.randint(1, 3), 'ab')
        Lref = set(rx.denot(t, n))
        words = exercises.wl(Lref, rng)
        for (nm, A) in [('reference', t)] + mut.rx_mutants(t, rng, limit=6):
            LA = set(rx.denot(A, n))
            text = txt.render_regexp_simple(A)
            pok, out, o = run_checker(nb.check_regexp_language_from_words, text, words, n)
            judge(rec, 'language_from_words', 'check_regexp_language_from_words', pok, LA == Lref, 'language', out, answer=text, mutant=nm, instance=(words, n))
            check_counterexample(rec, 'check_regexp_language_from_words', out, LA, Lref, answer=text, words=words)
        good = txt.render_regexp_simple(t)
        for (nm, text) in ill_formed_regexps(good):
            pok, out, o = run_checker(nb.check_regexp_language_from_words, text, words, n)
            judge(rec, 'language_from_words', 'check_regexp_language_from_words', pok, False, 'ill_formed_text:' + nm, out, answer=text, instance=(words, n))
    elif kind == 'pda':
        RP = exercises.tame_pda(rng)
        eps = rng.choice(['_', 'ε'])
        Lref = set(pd.language_upto(RP, n))
        words = exercises.wl(Lref, rng)
        m = rng.choice([0, len(RP[0])])
        for (nm, A) in [('reference', RP)] + mut.pda_mutants(RP, rng, 6):
            tame = all(pd.true_eps_closure(A, [(q, st)], 30)[1] for q in A[0] for st in ((), ('X',)))
            if not tame:
                continue
            LA = set(pd.language_upto(A, n))
            text = txt.render_pda(A, eps, exercises.layout(rng), rng)[0]
            pok, out, o = run_checker(nb.check_pda_language_from_words, text, words, n, m)
            judge(rec, 'language_from_words', 'check_pda_language_from_words', pok, LA == Lref and (m == 0 or len(A[0]) <= m), 'language' if LA != Lref else 'max_states', out,
                  answer=text, mutant=nm, instance=(words, n, m))
            check_counterexample(rec, 'check_pda_language_from_words', out, LA, Lref, answer=text, words=words)
    else:
        from vt.props.c11 import random_tm
        RT = random_tm(rng, rng.randint(1, 3), rng.randint(0, 1), rng.randint(1, 2), rng.choice(['_', '□']), p_def=rng.choice([0.6, 0.9]))
        n = min(n, 3)

        def L(T):
            return {w for w in fa.words_upto(T[1], n) if tmr.run(T, w, 1000)[0] is True}
        Lref = L(RT)
        words = exercises.wl(Lref, rng)
        m = rng.choice([0, len(RT[0])])
        for (nm, A) in [('reference', RT)] + mut.tm_mutants(RT, rng, 6):
            if not tmr.well_formed(A):
                continue
            LA = L(A)
            text = txt.render_tm(A, exercises.layout(rng), rng)[0]
            pok, out, o = run_checker(nb.check_tm_language_from_words, text, words, n, m)
            judge(rec, 'language_from_words', 'check_tm_language_from_words', pok, LA == Lref and (m == 0 or len(A[0]) <= m), 'language' if LA != Lref else 'max_states', out,
                  answer=text, mutant=nm, instance=(words, n, m))
            check_counterexample(rec, 'check_tm_language_from_words', out, LA, Lref, answer=text, words=words)


def ill_formed_regexps(good):
    return [('unbalanced_close', good + ')'), ('unbalanced_open', '(' + good), ('dangling_plus', good + '+'), ('leading_star', '*' + good),
            ('empty_parens', good + '()'), ('illegal_character', good + '#a'), ('empty_text', '')]


def fam_language_from_file(rec, rng, tmpdir):
    import gambatools.notebook as nb
    kind = rng.choice(['dfa', 'nfa', 'cfg', 'regexp'])
    n = rng.choice([3, 4])

    def write(ext, text):
        p = os.path.join(tmpdir, 'ref.' + ext)
        with open(p, 'w', encoding='utf8') as f:
            f.write(text)
        return p
    if kind == 'dfa':
        R = exercises.ref_dfa(rng, 4, 'ab')
        path = write('dfa', dfa_text(R, rng))
        Lref = set(fa.language_upto(R, n))
        for (nm, A) in [('reference', R)] + mut.fa_mutants(R, rng, extra_word_len=n):
            ok_struct = fa.well_formed(A) and fa.is_total_dfa(A)
            LA = set(fa.language_upto(A, n)) if ok_struct else set()
            text = dfa_text(A, rng)
            pok, out, o = run_checker(nb.check_dfa_language_from_file, text, path, n)
            judge(rec, 'language_from_file', 'check_dfa_language_from_file', pok, ok_struct and LA == Lref, 'language', out, answer=text, mutant=nm, instance=n)
            check_counterexample(rec, 'check_dfa_language_from_file', out, LA, Lref, answer=text)
    elif kind == 'nfa':
        R = exercises.ref_nfa(rng, 4)
        eps = rng.choice(['_', 'ε'])
        path = write('nfa', nfa_text(R, eps, rng))
        Lref = set(fa.language_upto(R, n))
        for (nm, A) in [('reference', R)] + mut.fa_mutants(R, rng, nfa=True, extra_word_len=n):
            LA = set(fa.language_upto(A, n))
            text = nfa_text(A, eps, rng)
            pok, out, o = run_checker(nb.check_nfa_language_from_file, text, path, n)
            judge(rec, 'language_from_file', 'check_nfa_language_from_file', pok, LA == Lref, 'language', out, answer=text, mutant=nm, instance=n)
            check_counterexample(rec, 'check_nfa_language_from_file', out, LA, Lref, answer=text)
    elif kind == 'cfg':
        RG = exercises.nondegenerate_grammar(rng, 3, 6, 3)
        path = write('cfg', txt.render_simple_cfg(RG, 'ε', rng))
        Lref = set(cf.language_upto(RG, n))
        for (nm, A) in [('reference', RG)] + mut.cfg_mutants(RG, rng, 6):
            if {x for (x, _) in A[2]} != set(A[0]) or not A[2] or A[2][0][0] != A[3]:
                continue
            LA = set(cf.language_upto(A, n))
            text = txt.render_simple_cfg(A, 'ε', rng)
            pok, out, o = run_checker(nb.check_cfg_language_from_file, text, path, n)
            judge(rec, 'language_from_file', 'check_cfg_language_from_file', pok, LA == Lref, 'language', out, answer=text, mutant=nm, instance=n)
            check_counterexample(rec, 'check_cfg_language_from_file', out, LA, Lref, answer=text)
    else:
        t = rxg.random_tree(rng, rng.randint(1, 4), 'ab', bias=rng.choice([None, 'star']))
        while rx.size_iter(t) > 12:
            t = rxg.random_tree(rng, rng.randint(1, 3), 'ab')
        path = write('regexp', txt.render_regexp_simple(t) + '\n')
        Lref = set(rx.denot(t, n))
        for (nm, A) in [('reference', t)] + mut.rx_mutants(t, rng, limit=6):
            LA = set(rx.denot(A, n))
            text = txt.render_regexp_simple(A)
            pok, out, o = run_checker(nb.check_regexp_language_from_file, text, path, n)
            judge(rec, 'language_from_file', 'check_regexp_language_from_file', pok, LA == Lref, 'language', out, answer=text, mutant=nm, instance=n)
            check_counterexample(rec, 'check_regexp_language_from_file', out, LA, Lref, answer=text)


def fam_accepts_rejects(rec, rng):
    import gambatools.notebook as nb
    n = 4
    if rng.random() < 0.5:
        RG = exercises.nondegenerate_grammar(rng, 3, 6, 3)
        Lref = set(cf.language_upto(RG, n))
        allw = list(fa.words_upto(RG[1], n))
        acc = rng.sample(sorted(Lref), min(len(Lref), 5))
        rej = rng.sample([w for w in allw if w not in Lref], min(5, len(allw) - len(Lref)))
        sa, sr = exercises.wl(acc, rng), exercises.wl(rej, rng)
        for (nm, A) in [('reference', RG)] + mut.cfg_mutants(RG, rng, 8):
            if {x for (x, _) in A[2]} != set(A[0]) or not A[2] or A[2][0][0] != A[3]:
                continue
            LA = set(cf.language_upto(A, n))
            right = all(w in LA for w in acc) and not any(w in LA for w in rej)
            text = txt.render_simple_cfg(A, 'ε', rng)
            pok, out, o = run_checker(nb.check_cfg_accepts_rejects, text, sa, sr)
            judge(rec, 'accepts_rejects', 'check_cfg_accepts_rejects', pok, right, 'word_lists', out, answer=text, mutant=nm, instance=(sa, sr))
            check_counterexample(rec, 'check_cfg_accepts_rejects', out, LA & (set(acc) | set(rej)), set(acc), minimal=False, answer=text)
    else:
        R = exercises.ref_dfa(rng, 4, 'ab')
        Lref = set(fa.language_upto(R, n))
        allw = list(fa.words_upto(R[1], n))
        acc = rng.sample(sorted(Lref), min(len(Lref), 5))
        rej = rng.sample([w for w in allw if w not in Lref], min(5, len(allw) - len(Lref)))
        sa, sr = exercises.wl(acc, rng), exercises.wl(rej, rng)
        for (nm, A) in [('reference', R)] + mut.fa_mutants(R, rng):
            if not (fa.well_formed(A) and fa.is_total_dfa(A)):
                continue
            LA = set(fa.language_upto(A, n))
            right = all(w in LA for w in acc) and not any(w in LA for w in rej)
            text = dfa_text(A, rng)
            pok, out, o = run_checker(nb.check_dfa_accepts_rejects, text, sa, sr)
            judge(rec, 'accepts_rejects', 'check_dfa_accepts_rejects', pok, right, 'word_lists', out, answer=text, mutant=nm, instance=(sa, sr))
            check_counterexample(rec, 'check_dfa_accepts_rejects', out, LA & (set(acc) | set(rej)), set(acc), minimal=False, answer=text)


def product_ref(R1, R2, mode):
    P = fa.r_product(R1, R2, mode)
    nm = lambda s: '(%s,%s)' % s
    return fa.make([nm(s) for s in P[0]], P[1], [(nm(p), a, nm(q)) for (p, a, q) in P[2]], nm(P[3]), [nm(s) for s in P[4]])


def fam_product(rec, rng):
    import gambatools.notebook_dfa as nd
    mode = rng.choice(['union', 'intersection', 'symmetric_difference'])
    fn = getattr(nd, 'check_dfa_' + mode)
    syms = rng.choice(['ab', 'a'])
    R1 = exercises.ref_dfa(rng, 3, syms, names=fag.random_names(rng, 3))
    R2 = exercises.ref_dfa(rng, 3, syms, names=fag.random_names(rng, 3))
    while R2[1] != R1[1]:
        R2 = exercises.ref_dfa(rng, 3, syms, names=fag.random_names(rng, 3))
    n = rng.choice([4, 5, 6])
    if rng.random() < 0.2:
        # two unary counters: the product has reachable states that are first reached by words LONGER than the checker's bound
        # (round 14, C12_t: a structural check that leaves the finality of reachable states to the language comparison)
        syms = 'a'
        m1, m2 = rng.choice([(3, 4), (4, 5), (3, 5), (2, 5), (4, 3), (5, 4)])
        nm1, nm2 = fag.random_names(rng, m1), fag.random_names(rng, m2)
        R1 = fa.make(nm1, 'a', [(nm1[i], 'a', nm1[(i + 1) % m1]) for i in range(m1)], nm1[0], [q for q in nm1 if rng.random() < 0.4] or [nm1[-1]])
        R2 = fa.make(nm2, 'a', [(nm2[i], 'a', nm2[(i + 1) % m2]) for i in range(m2)], nm2[0], [q for q in nm2 if rng.random() < 0.4] or [nm2[0]])
    P = product_ref(R1, R2, mode)
    Lref = set(fa.language_upto(P, n))
    t1, t2 = dfa_text(R1, rng), dfa_text(R2, rng)
    answers = [('reference', P)] + mut.fa_mutants(P, rng, limit=10)
    # the answer of another product type; swapped components; only the reachable part
    other = [m for m in ('union', 'intersection', 'symmetric_difference') if m != mode]
    answers.append(('other_product_type', product_ref(R1, R2, rng.choice(other))))
    answers.append(('swapped_components', mut.rename_states(P, lambda s: '(%s,%s)' % tuple(reversed(s[1:-1].split(','))))))
    reach = fa.reachable(P)
    answers.append(('reachable_part_only', fa.make([q for q in P[0] if q in reach], P[1], [t for t in P[2] if t[0] in reach], P[3], [q for q in P[4] if q in reach])))
    # language-preserving but structurally wrong: another initial state that is equivalent to the right one,
    # a changed move / acceptance of an UNREACHABLE product state
    cls = fa.moore_classes(P, P[0])
    eq_init = [q for q in P[0] if q != P[3] and cls[q] == cls[P[3]]]
    if eq_init:
        answers.append(('equivalent_initial_state', (P[0], P[1], P[2], rng.choice(eq_init), P[4])))
    # wrong acceptance of a REACHABLE state that no word of length <= n reaches: invisible to the language comparison, wrong by structure
    depth = {P[3]: 0}
    frontier = [P[3]]
    Pd0 = {(p, a): q for (p, a, q) in P[2]}
    while frontier:
        nxt = []
        for p_ in frontier:
            for a in P[1]:
                q_ = Pd0.get((p_, a))
                if q_ is not None and q_ not in depth:
                    depth[q_] = depth[p_] + 1
                    nxt.append(q_)
        frontier = nxt
    deep = sorted(q for q in depth if depth[q] > n)
    if deep:
        dq = rng.choice(deep)
        answers.append(('flip_final_of_state_reached_only_beyond_the_bound', fa.make(P[0], P[1], P[2], P[3], set(P[4]) ^ {dq})))
    unreach = [q for q in P[0] if q not in reach]
    if unreach:
        u = rng.choice(unreach)
        answers.append(('flip_final_of_unreachable_state', fa.make(P[0], P[1], P[2], P[3], set(P[4]) ^ {u})))
        T2 = [(p, a, (rng.choice(P[0]) if p == u else q)) for (p, a, q) in P[2]]
        answers.append(('retarget_moves_of_unreachable_state', fa.make(P[0], P[1], T2, P[3], P[4])))
    # an extra, unreachable, non-accepting state whose label LOOKS like a product state but whose components come
    # from the wrong operand / from one operand only
    for comp in ((R2[0][0], R1[0][0]), (R1[0][0], R1[0][-1]), (R2[0][0], R2[0][-1])):
        bad = '(%s,%s)' % comp
        if bad not in P[0] and not (comp[0] in R1[0] and comp[1] in R2[0]):
            answers.append(('extra_state_with_wrong_side_components', fa.make(list(P[0]) + [bad], P[1], list(P[2]) + [(bad, a, P[3]) for a in P[1]], P[3], P[4])))
    Pd = {(p, a): q for (p, a, q) in P[2]}
    for (nm, A) in answers:
        if not (fa.well_formed(A) and fa.is_total_dfa(A)):
            continue
        LA = set(fa.language_upto(A, n))
        why = None
        valid_states = all(re.fullmatch(r'\(\w+,\w+\)', q) and q[1:-1].split(',')[0] in R1[0] and q[1:-1].split(',')[1] in R2[0] for q in A[0])
        if LA != Lref:
            why = 'language'
        elif not valid_states:
            why = 'structure:not_a_product_state'
        elif A[3] != P[3]:
            why = 'structure:initial_state'
        elif any((p, a) in Pd and Pd[(p, a)] != q for (p, a, q) in A[2]):
            why = 'structure:transition'
        elif set(A[4]) != set(P[4]):
            why = 'structure:final_states'
        text = dfa_text(A, rng)
        pok, out, o = run_checker(fn, text, t1, t2, n)
        judge(rec, 'product', fn.__name__, pok, why is None, why or '', out, answer=text, mutant=nm, instance=(t1, t2, n))
        check_counterexample(rec, fn.__name__, out, LA, Lref, answer=text, dfa1=t1, dfa2=t2)
    for (nm, text) in ill_formed_automaton_texts(dfa_text(P, rng, True), rng):
        pok, out, o = run_checker(fn, text, t1, t2, n)
        judge(rec, 'product', fn.__name__, pok, False, 'ill_formed_text:' + nm, out, answer=text, instance=(t1, t2, n))


def fam_complement(rec, rng):
    import gambatools.notebook_dfa as nd
    R = exercises.ref_dfa(rng, 4, rng.choice(['ab', 'a']))
    C = fa.r_complement(R)
    t1 = dfa_text(R, rng)
    answers = [('reference', C), ('unchanged_dfa', R)] + mut.fa_mutants(C, rng, limit=8)
    answers.append(('renamed_states', mut.rename_states(C, lambda q: 'z' + q)))
    for (nm, A) in answers:
        if not (fa.well_formed(A) and fa.is_total_dfa(A)):
            continue
        why = None
        if set(A[1]) != set(C[1]):
            why = 'alphabet'
        elif set(A[0]) != set(C[0]):
            why = 'states'
        elif A[3] != C[3]:
            why = 'initial_state'
        elif set(A[2]) != set(C[2]):
            why = 'transitions'
        elif set(A[4]) != set(C[4]):
            why = 'final_states'
        text = dfa_text(A, rng)
        pok, out, o = run_checker(nd.check_dfa_complement, text, t1)
        judge(rec, 'complement', 'check_dfa_complement', pok, why is None, why or '', out, answer=text, mutant=nm, instance=t1)
    for (nm, text) in ill_formed_automaton_texts(dfa_text(C, rng, True), rng):
        pok, out, o = run_checker(nd.check_dfa_complement, text, t1)
        judge(rec, 'complement', 'check_dfa_complement', pok, False, 'ill_formed_text:' + nm, out, answer=text, instance=t1)


def fam_reverse(rec, rng):
    import gambatools.notebook_dfa as nd
    R = exercises.ref_dfa(rng, 4, rng.choice(['ab', 'a']))
    n = rng.choice([4, 5])
    new = 'r0' if 'r0' not in R[0] else 'rr0'
    T = [(q, a, p) for (p, a, q) in R[2]] + [(new, None, f) for f in R[4]]
    V = fa.make(list(R[0]) + [new], R[1], T, new, [R[3]])
    Lref = {w[::-1] for w in fa.language_upto(R, n)}
    t1 = dfa_text(R, rng)
    eps = rng.choice(['ε', '_'])
    answers = [('reference', V)] + mut.fa_mutants(V, rng, nfa=True, limit=10)
    det = fa.determinize(V)
    answers.append(('determinised_reverse', fa.make(['d%d' % i for i in det[0][0]], det[0][1], [('d%d' % p, a, 'd%d' % q) for (p, a, q) in det[0][2]], 'd0', ['d%d' % i for i in det[0][4]])))
    answers.append(('original_dfa', R))
    # language-preserving but structurally wrong answers
    if len(R[4]) == 1:
        f = R[4][0]
        answers.append(('final_state_reused_as_initial', fa.make(R[0], R[1], [(q, a, p) for (p, a, q) in R[2]], f, [R[3]])))
    q_ren = rng.choice(R[0])
    answers.append(('one_state_renamed', mut.rename_states(V, lambda q: 'zz7' if q == q_ren else q)))
    answers.append(('extra_final_state', fa.make(list(V[0]) + ['zz8'], V[1], V[2], V[3], list(V[4]) + ['zz8'])))
    rv = fa.reachable(V)
    dead = [t for t in V[2] if t[0] not in rv and t[1] is not None]
    if dead:
        t = rng.choice(dead)
        answers.append(('unreachable_reversed_move_dropped', fa.make(V[0], V[1], [x for x in V[2] if x != t], V[3], V[4])))
    fwd = {(p, a): q for (p, a, q) in R[2]}
    for (nm, A) in answers:
        if not fa.well_formed(A):
            continue
        LA = set(fa.language_upto(A, n))
        m = fa.succ_map(A)
        why = None
        if LA != Lref:
            why = 'language'
        elif set(A[1]) != set(R[1]):
            why = 'alphabet'
        elif not set(R[0]) <= set(A[0]):
            why = 'structure:states_not_reused'
        elif any(p not in m.get((q, a), ()) for (p, a), q in fwd.items()):
            why = 'structure:reversed_transition_missing'
        elif A[3] in R[0]:
            why = 'structure:no_new_initial_state'
        elif set(A[4]) != {R[3]}:
            why = 'structure:final_state'
        text = nfa_text(A, eps, rng)
        pok, out, o = run_checker(nd.check_dfa_reverse, t1, text, n)
        judge(rec, 'reverse', 'check_dfa_reverse', pok, why is None, why or '', out, answer=text, mutant=nm, instance=(t1, n))
        check_counterexample(rec, 'check_dfa_reverse', out, LA, Lref, answer=text, dfa=t1)


def fam_minimal(rec, rng, big=False):
    import gambatools.notebook_dfa as nd
    R = exercises.ref_dfa(rng, 6, rng.choice(['ab', 'a']), connected=True)
    n = rng.choice([4, 5, 6])
    if big:
        # a large reference automaton (306 states, all reachable and pairwise distinguishable, partition numbers with two and three
        # digits); the candidate answers include what the library's own minimisers return (classified by the reference model)
        R = fag.layered_pairs_dfa(12)
        n = 6
    cls = fa.moore_classes(R, R[0])
    groups = {}
    for q in R[0]:
        groups.setdefault(cls[q], []).append(q)
    name = {c: '{' + ','.join(sorted(g)) + '}' for c, g in groups.items()}
    M = fa.make(list(name.values()), R[1], {(name[cls[p]], a, name[cls[q]]) for (p, a, q) in R[2]}, name[cls[R[3]]], {name[cls[q]] for q in R[4]})
    k = len(groups)
    Lref = set(fa.language_upto(R, n))
    t1 = dfa_text(R, rng)
    answers = [('reference', M), ('original_dfa', R), ('renamed_minimal', mut.rename_states(M, lambda q: 'm%d' % sorted(M[0]).index(q)))] + mut.fa_mutants(M, rng, limit=10)
    dupq = rng.choice(M[0])
    Td = list(M[2]) + [('dup9', a, q) for (p, a, q) in M[2] if p == dupq]
    inc = [i for i, t in enumerate(Td) if t[2] == dupq and t[0] != 'dup9']
    if inc:
        i = rng.choice(inc)
        Td[i] = (Td[i][0], Td[i][1], 'dup9')
    answers.append(('one_state_duplicated', fa.make(list(M[0]) + ['dup9'], M[1], Td, M[3], list(M[4]) + (['dup9'] if dupq in M[4] else []))))
    if big or rng.random() < 0.3:
        import gambatools.dfa_algorithms as da_
        for fn in ('dfa_quotient', 'dfa_minimize', 'dfa_hopfcroft'):
            o = call(getattr(da_, fn), adapt.build_dfa(R))
            if o.ok:
                answers.append(('output_of_' + fn, adapt.dfa_ref(o.value)))
        if big:
            answers = [a_ for a_ in answers if a_[0].startswith('output_of_') or a_[0] in ('reference', 'original_dfa')]
    for (nm, A) in answers:
        if not (fa.well_formed(A) and fa.is_total_dfa(A)):
            continue
        if not all(re.fullmatch(r'(\w+)|(\{[\w,]*\})', q) for q in A[0]):
            continue
        LA = set(fa.language_upto(A, n))
        why = None
        if LA != Lref:
            why = 'language'
        elif set(A[1]) != set(R[1]):
            why = 'alphabet'
        elif len(A[0]) != k:
            why = 'number_of_states'
        elif big and fa.dfa_distinguish(A, R, tuple(R[1])) is not None:
            why = 'language'                      # differs on a word longer than n
        text = dfa_text(A, rng)
        pok, out, o = run_checker(nd.check_dfa_minimal, t1, text, n)
        judge(rec, 'minimal', 'check_dfa_minimal', pok, why is None, why or '', out, answer=text, mutant=nm, instance=(t1, n))
        check_counterexample(rec, 'check_dfa_minimal', out, LA, Lref, answer=text, dfa=t1)
    for (nm, text) in ill_formed_automaton_texts(dfa_text(M, rng, True), rng):
        pok, out, o = run_checker(nd.check_dfa_minimal, t1, text, n)
        judge(rec, 'minimal', 'check_dfa_minimal', pok, False, 'ill_formed_text:' + nm, out, answer=text, instance=(t1, n))


def fam_nfa2dfa(rec, rng):
    import gambatools.notebook_nfa2dfa as nn
    R = exercises.ref_nfa(rng, 4)
    eps = rng.choice(['_', 'ε'])
    RD, labels = fa.determinize(R)
    lab = lambda i: '{' + ','.join(sorted(labels[i])) + '}'
    A0 = fa.make([lab(i) for i in RD[0]], RD[1], [(lab(p), a, lab(q)) for (p, a, q) in RD[2]], lab(0), [lab(i) for i in RD[4]])
    t1 = nfa_text(R, eps, rng)
    m = fa.succ_map(R)
    Fn = set(R[4])

    def expected_target(S, a):
        X = set()
        for p in S:
            X |= m.get((p, a), set())
        return fa.eps_closure_bfs(R, sorted(X))

    def parse_label(s):
        body = s[1:-1]
        return frozenset(body.split(',')) if body else frozenset()
    answers = [('reference', A0)] + mut.fa_mutants(A0, rng, nfa=True, limit=12)
    # a state whose label is not a set of NFA states, with correct language
    answers.append(('relabelled_state', mut.rename_states(A0, lambda q: q if q != A0[3] else '{zz9}')))
    # the same subset spelled with two different labels ({p,q} and {q,p}); the second copy is wrong in its
    # acceptance or in one of its moves, and some moves lead into it
    multi = [q for q in A0[0] if len(parse_label(q)) >= 2]
    for _ in range(2):
        if not multi:
            break
        q = rng.choice(multi)
        els = sorted(parse_label(q))
        perm = els[1:] + els[:1]
        q2 = '{' + ','.join(perm) + '}'
        if q2 in A0[0]:
            continue
        T2 = []
        for (p, a, t) in A0[2]:
            T2.append((p, a, q2 if (t == q and rng.random() < 0.5) else t))
        out = [(q2, a, t) for (p, a, t) in A0[2] if p == q]
        kind = rng.choice(['flip_final', 'retarget', 'correct_copy'])
        F2 = list(A0[4]) + ([q2] if q in A0[4] else [])
        if kind == 'flip_final':
            F2 = [x for x in F2 if x != q2] if q2 in F2 else F2 + [q2]
        elif kind == 'retarget' and out:
            i = rng.randrange(len(out))
            out[i] = (out[i][0], out[i][1], rng.choice(A0[0]))
        answers.append(('subset_spelled_twice/' + kind, fa.make(list(A0[0]) + [q2], A0[1], T2 + out, A0[3] if rng.random() < 0.7 else (q2 if A0[3] == q else A0[3]), F2)))
    # extra subset states that the construction does NOT reach from the initial subset (with their correct moves, closed under
    # successors): marked correctly, or with the acceptance of one of them flipped
    import itertools as _it
    have = {parse_label(q) for q in A0[0]}
    cands = [frozenset(c) for r_ in (1, 2) for c in _it.combinations(sorted(R[0]), r_) if frozenset(c) not in have]
    rng.shuffle(cands)
    for S0 in cands[:2]:
        extra, todo = set(), [S0]
        while todo and len(extra) < 6:
            S = todo.pop()
            if S in have or S in extra:
                continue
            extra.add(S)
            for a in R[1]:
                todo.append(frozenset(expected_target(S, a)))
        if todo:
            continue
        lbl = lambda S: '{' + ','.join(sorted(S)) + '}'
        Tx = [(lbl(S), a, lbl(frozenset(expected_target(S, a)))) for S in extra for a in R[1]]
        Fx = [lbl(S) for S in extra if S & Fn]
        answers.append(('extra_unreachable_subsets_correct', fa.make(list(A0[0]) + [lbl(S) for S in extra], A0[1], list(A0[2]) + Tx, A0[3], list(A0[4]) + Fx)))
        flip = lbl(rng.choice(sorted(extra, key=sorted)))
        Fx2 = [x for x in Fx if x != flip] if flip in Fx else Fx + [flip]
        answers.append(('extra_unreachable_subsets_wrong_final_marking', fa.make(list(A0[0]) + [lbl(S) for S in extra], A0[1], list(A0[2]) + Tx, A0[3], list(A0[4]) + Fx2)))
    for (nm, A) in answers:
        if not fa.well_formed(A) or not all(re.fullmatch(r'\{[\w,]*\}', q) for q in A[0]) or any(a is None for (_, a, _) in A[2]):
            continue
        sm = fa.succ_map(A)
        why = None
        if set(A[1]) != set(R[1]):
            why = 'alphabet'
        elif any(a is None for (_, a, _) in A[2]):
            why = 'epsilon_move'
        elif not all(parse_label(q) <= set(R[0]) for q in A[0]):
            why = 'label_not_a_state_set'
        elif parse_label(A[3]) != fa.eps_closure_bfs(R, [R[3]]):
            why = 'initial_state'
        elif any((q in A[4]) != bool(parse_label(q) & Fn) for q in A[0]):
            why = 'final_marking'
        elif any(len(sm.get((q, a), ())) != 1 for q in A[0] for a in A[1]):
            why = 'not_deterministic_or_total'
        elif any(parse_label(next(iter(sm[(q, a)]))) != expected_target(parse_label(q), a) for q in A[0] for a in A[1]):
            why = 'transition_target'
        text = txt.render_fa(A, 'dfa', None, dict(txt.PLAIN, grouping=rng.choice(['grouped', 'single'])), rng)[0]
        pok, out, o = run_checker(nn.check_nfa2dfa, t1, text)
        judge(rec, 'nfa2dfa', 'check_nfa2dfa', pok, why is None, why or '', out, answer=text, mutant=nm, instance=t1)


def fam_dfa2regexp(rec, rng):
    import gambatools.notebook as nb
    R = exercises.ref_dfa(rng, 3, rng.choice(['ab', 'a']))
    n = rng.choice([3, 4, 5])
    t1 = dfa_text(R, rng)
    Lref = set(fa.language_upto(R, n))
    # base answer: own state elimination is not needed - take the library's answer only as a TEXT source of
    # candidate expressions and classify every candidate with the reference semantics
    import gambatools.regexp_algorithms as ra
    o = call(ra.dfa_to_regexp, adapt.build_dfa(R))
    cands = []
    if o.ok:
        base = adapt.rx_ref(o.value)
        if rx.size_iter(base) <= 60:
            cands.append(('library_answer', base))
            cands += mut.rx_mutants(base, rng, limit=6)
    for _ in range(4):
        cands.append(('random_expression', rxg.random_tree(rng, rng.randint(1, 4), ''.join(R[1]) or 'a')))
    for (nm, A) in cands:
        if rx.size_iter(A) > 80:
            continue
        LA = set(rx.denot(A, n))
        text = txt.render_regexp_simple(A)
        pok, out, o2 = run_checker(nb.check_dfa2regexp, t1, text, n)
        judge(rec, 'dfa2regexp', 'check_dfa2regexp', pok, LA == Lref, 'language', out, answer=text, mutant=nm, instance=(t1, n))
        check_counterexample(rec, 'check_dfa2regexp', out, LA, Lref, answer=text, dfa=t1)
    if cands and cands[0][0] == 'library_answer' and len(R[1]) >= 1:
        # answers that differ from the reference only on ONE long word (length 7 or 8), checked with the default bound 8
        base = cands[0][1]
        allw = None
        for L_ in (7, 8):
            for _ in range(30):
                wd = ''.join(rng.choice(R[1]) for _ in range(L_))
                if not fa.accepts_graph(R, wd):
                    wr = ('s', wd[0])
                    for ch in wd[1:]:
                        wr = ('.', wr, ('s', ch))
                    A = ('+', base, wr)
                    if rx.size_iter(A) <= 120:
                        text = txt.render_regexp_simple(A)
                        pok, out, o2 = run_checker(nb.check_dfa2regexp, t1, text)
                        judge(rec, 'dfa2regexp', 'check_dfa2regexp', pok, False, 'language:long_word_only', out, answer=text, mutant='extra_long_word', instance=(t1, 8))
                    break
    if cands:
        good = txt.render_regexp_simple(cands[0][1])
        for (nm, text) in ill_formed_regexps(good):
            pok, out, o2 = run_checker(nb.check_dfa2regexp, t1, text, n)
            judge(rec, 'dfa2regexp', 'check_dfa2regexp', pok, False, 'ill_formed_text:' + nm, out, answer=text, instance=(t1, n))


def phase_ok(RG, phase, S):
    """structural requirement of the Chomsky exercise after `phase`; returns None or a reason"""
    if phase >= 1 and RG[3] != S:
        return 'start_variable'
    if phase >= 2 and any(len(r) == 0 and A != RG[3] for (A, r) in RG[2]):
        return 'epsilon_rule'
    if phase >= 3 and any(len(r) == 1 and r[0][0] == 'V' for (A, r) in RG[2]):
        return 'unit_rule'
    if phase >= 4 and any(len(r) > 2 for (A, r) in RG[2]):
        return 'long_rule'
    if phase >= 5 and any(not (len(r) == 0 or (len(r) == 1 and r[0][0] == 'T') or (len(r) == 2 and r[0][0] == 'V' and r[1][0] == 'V')) for (A, r) in RG[2]):
        return 'not_chomsky_shape'
    return None


def fam_chomsky(rec, rng):
    import gambatools.notebook_chomsky as nc
    RG = exercises.nondegenerate_grammar(rng, 3, 6, 4)
    n = rng.choice([3, 4])
    S = 'T'
    Lref = set(cf.language_upto(RG, n))
    t0 = txt.render_simple_cfg(RG, 'ε', rng)
    bases = {}
    for phase in range(1, 6):
        o = call(nc.cfg_apply_chomsky, adapt.build_cfg(RG), phase, S)
        if o.ok:
            bases[phase] = adapt.cfg_ref(o.value)
    bases[0] = RG          # phase 0: only the language is compared
    for phase in range(0, 6):
        if phase not in bases:
            continue
        answers = [('library_answer', bases[phase])] + mut.cfg_mutants(bases[phase], rng, 6)
        # the same rules with the rules of another variable first: in the simple format that variable is the start variable
        for tw in cfgg.start_twins(bases[phase])[:3]:
            answers.append(('same_rules_other_start_variable', cf.make(tw[0], tw[1], [r for r in tw[2] if r[0] == tw[3]] + [r for r in tw[2] if r[0] != tw[3]], tw[3])))
        if phase - 1 in bases:
            answers.append(('answer_of_previous_phase', bases[phase - 1]))
        B0 = bases[phase]
        Av = rng.choice(B0[0])
        answers.append(('self_unit_rule_added', cf.make(B0[0], B0[1], list(B0[2]) + [(Av, (('V', Av),))], B0[3])))
        longr = [r for r in B0[2] if len(r[1]) == 2]
        if longr and B0[1]:
            (A_, rhs) = rng.choice(longr)
            answers.append(('rule_padded_to_three_symbols', cf.make(B0[0], B0[1], list(B0[2]) + [(A_, rhs + (rhs[-1],))], B0[3])))
        answers.append(('original_grammar', RG))
        for (nm, A) in answers:
            if {x for (x, _) in A[2]} != set(A[0]) or not A[2] or A[2][0][0] != A[3] or not all(len(v) == 1 for v in A[0]):
                continue
            LA = set(cf.language_upto(A, n))
            why = 'language' if LA != Lref else phase_ok(A, phase, S)
            text = txt.render_simple_cfg(A, 'ε', rng)
            pok, out, o = run_checker(nc.cfg_check_chomsky, t0, text, phase, S, n)
            judge(rec, 'chomsky', 'cfg_check_chomsky', pok, why is None, 'phase%d:%s' % (phase, why) if why else '', out, answer=text, mutant=nm, instance=(t0, phase, n))
            check_counterexample(rec, 'cfg_check_chomsky', out, LA, Lref, answer=text, grammar=t0)


def cyk_rows(RG, w):
    """expected table: list of rows top (full span) to bottom (single letters); each cell a sorted list"""
    D = cf.derives(RG, w)
    n = len(w)
    rows = []
    for i in range(n - 1, -1, -1):            # span length i+1
        rows.append([sorted(A for A in RG[0] if (j, j + i + 1) in D[A]) for j in range(0, n - i)])
    return rows


def render_rows(rows):
    return '\n'.join('  '.join('{' + ','.join(c) + '}' for c in r) for r in rows)


def fam_cyk(rec, rng):
    import gambatools.notebook_cfg as ng
    RG = exercises.cnf_grammar(rng, 3)
    if not RG[1]:
        return
    L = sorted(cf.language_upto(RG, 4) - {''})
    w = rng.choice(L) if L and rng.random() < 0.7 else ''.join(rng.choice(RG[1]) for _ in range(rng.randint(1, 4)))
    t0 = txt.render_simple_cfg(RG, 'ε', rng)
    rows = cyk_rows(RG, w)
    n = len(w)
    answers = [('reference', rows)]
    if n >= 2:
        answers.append(('drop_top_row', rows[1:]))
        answers.append(('drop_bottom_row', rows[:-1]))
        answers.append(('only_top_row', rows[:1]))
    answers.append(('extra_row_below', rows + [[[] for _ in range(n + 1)]]))
    answers.append(('extra_empty_set_row_on_top', [[[]]] + [r for r in rows]))
    for _ in range(4):
        r = [list(map(list, row)) for row in rows]
        i = rng.randrange(len(r))
        j = rng.randrange(len(r[i]))
        cell = set(r[i][j])
        v = rng.choice(RG[0])
        cell ^= {v}
        r[i][j] = sorted(cell)
        answers.append(('change_cell', r))
    r = [list(map(list, row)) for row in rows]
    r[-1] = r[-1][:-1]
    answers.append(('drop_cell', r))
    r = [list(map(list, row)) for row in rows]
    r[0] = r[0] + [[]]
    answers.append(('extra_cell', r))
    for (nm, A) in answers:
        why = None
        if len(A) != n:
            why = 'row_count'
        elif any(len(A[i]) != i + 1 for i in range(len(A))):
            why = 'row_length'
        elif A != rows:
            why = 'cell_content'
        text = render_rows(A)
        if not text.strip():
            continue
        pok, out, o = run_checker(ng.check_cyk_matrix, t0, w, text)
        judge(rec, 'cyk', 'check_cyk_matrix', pok, why is None, why or '', out, answer=text, mutant=nm, instance=(t0, w))
    # malformed spellings of the CORRECT value of one cell (also of values that occur earlier in the table)
    for _ in range(6):
        i = rng.randrange(len(rows))
        j = rng.randrange(len(rows[i]))
        val = rows[i][j]
        body = ','.join(val)
        spell = rng.choice(['{' + body, body + '}', body if body else ',', '{' + body + '}}', '{{' + body + '}', '{' + ''.join(val) + '}' if len(val) >= 2 else '{' + body + ',}',
                            '{' + body + ',}', '{,' + body + '}', '(' + body + ')'])
        if spell == '{' + body + '}' or not spell:
            continue
        cells = [['{' + ','.join(c) + '}' for c in r] for r in rows]
        cells[i][j] = spell
        text = '\n'.join('  '.join(r) for r in cells)
        pok, out, o = run_checker(ng.check_cyk_matrix, t0, w, text)
        judge(rec, 'cyk', 'check_cyk_matrix', pok, False, 'ill_formed_text:malformed_entry', out, answer=text, instance=(t0, w))
    good = render_rows(rows)
    for (nm, text) in (('unknown_variable', good.replace('{', '{Ω,', 1) if '{' in good else good + ' {Ω}'), ('ill_formed_entry', good + ' {A,,B}'), ('not_a_set', good.replace('{', '[', 1))):
        if text == good:
            continue
        pok, out, o = run_checker(ng.check_cyk_matrix, t0, w, text)
        judge(rec, 'cyk', 'check_cyk_matrix', pok, False, 'ill_formed_text:' + nm, out, answer=text, instance=(t0, w))


def fam_derivation(rec, rng):
    import gambatools.notebook_cfg as ng
    import gambatools.cfg_algorithms as ca
    from vt.props.c15 import check_derivation
    RG = exercises.cnf_grammar(rng, 4) if rng.random() < 0.5 else cfgg.redundant_cnf(rng)
    L = sorted(cf.language_upto(RG, 5) - {''})
    if not L:
        return
    w = rng.choice(L[-8:]) if rng.random() < 0.6 else rng.choice(L)
    t0 = txt.render_simple_cfg(RG, 'ε', rng)
    G = adapt.build_cfg(RG)
    ders = {}
    for dt in ('leftmost', 'rightmost'):
        o = call(ca.cfg_derive_word, G, w, dt)
        if o.ok:
            ders[dt] = [[str(x) for x in el] for el in o.value]
    for dt in ('leftmost', 'rightmost', 'any'):
        base = ders.get('leftmost' if dt != 'rightmost' else 'rightmost')
        if not base:
            continue
        answers = [('library_answer', base)]
        if 'rightmost' in ders and 'leftmost' in ders:
            answers.append(('other_direction', ders['rightmost' if dt != 'rightmost' else 'leftmost']))
        if len(base) > 2:
            i = rng.randrange(1, len(base) - 1)
            answers.append(('drop_step', base[:i] + base[i + 1:]))
            answers.append(('truncated', base[:-1]))
            if len(base) > 3:
                j = rng.randrange(1, len(base) - 2)
                answers.append(('swap_steps', base[:j] + [base[j + 1], base[j]] + base[j + 2:]))
        # derivations that rewrite the variables of one derivation tree in other orders (valid for 'any', usually not
        # leftmost / rightmost), classified by the independent validator
        tree = cf.parse_tree(RG, w, rng)
        if tree is not None:
            for order in ('leftmost', 'rightmost', 'random', 'random', 'random'):
                answers.append(('tree_linearised_' + order, cf.linearize(tree, order, rng)))
        answers.append(('wrong_last_form', base[:-1] + [list(w[::-1])] if w != w[::-1] else base[:-1] + [list(w) + [w[0]]]))
        answers.append(('no_start', base[1:]))
        answers.append(('duplicate_step', base[:1] + base))
        other = [x for x in L if x != w]
        for (nm, A) in answers:
            if not A:
                continue
            why = check_derivation(RG, w, A, dt)
            text = ' => '.join(''.join(el) for el in A)
            pok, out, o = run_checker(ng.check_cfg_derivation, t0, text, w, dt)
            judge(rec, 'derivation', 'check_cfg_derivation', pok, why is None, ('%s:%s' % (dt, re.sub(r'\d+', 'k', why))) if why else '', out, answer=text, mutant=nm, instance=(t0, w, dt))
        if other:
            w2 = rng.choice(other)
            text = ' => '.join(''.join(el) for el in base)
            pok, out, o = run_checker(ng.check_cfg_derivation, t0, text, w2, dt)
            judge(rec, 'derivation', 'check_cfg_derivation', pok, False, '%s:derivation_of_another_word' % dt, out, answer=text, instance=(t0, w2, dt))
        pok, out, o = run_checker(ng.check_cfg_derivation, t0, '', w, dt)
        judge(rec, 'derivation', 'check_cfg_derivation', pok, False, 'ill_formed_text:empty', out, answer='', instance=(t0, w, dt))


def fam_automata_checker(rec, rng):
    import gambatools.automata_checker as ac
    n = rng.choice([3, 4])
    if rng.random() < 0.5:
        R = exercises.ref_dfa(rng, 4, 'ab')
        Lref = set(fa.language_upto(R, n))
        language = ' '.join(w if w else 'ε' for w in sorted(Lref))
        for (nm, A) in [('reference', R)] + mut.fa_mutants(R, rng):
            if not (fa.well_formed(A) and fa.is_total_dfa(A)):
                continue
            LA = set(fa.language_upto(A, n))
            o = call(ac.check_dfa_for_given_language, set(A[0]), [(p, a, q) for (p, a, q) in A[2]], {A[3]}, set(A[4]), language, n)
            v = o.ok and isinstance(o.value, dict) and o.value.get('correct') is True
            judge(rec, 'automata_checker', 'check_dfa_for_given_language', v, LA == Lref, 'language', repr(o.value if o.ok else o.exc), answer=A, mutant=nm, instance=(language, n))
            if o.ok and isinstance(o.value, dict) and o.value.get('feedback'):
                fb = o.value['feedback']
                m = re.search(r"word '(.*)' (should not be accepted|is not accepted)", fb)
                if m:
                    rec.ev('counterexample_words')
                    w = '' if m.group(1) == 'ε' else m.group(1)
                    side = (LA - Lref) if 'should not' in m.group(2) else (Lref - LA)
                    if w not in side:
                        rec.violation('check_dfa_for_given_language:counterexample_not_a_difference', 'the reported word is not a genuine difference of that polarity', word=w, feedback=fb, answer=A)
    else:
        R = exercises.ref_nfa(rng, 4)
        eps = '_'
        Lref = set(fa.language_upto(R, n))
        language = ' '.join(w if w else 'ε' for w in sorted(Lref))
        for (nm, A) in [('reference', R)] + mut.fa_mutants(R, rng, nfa=True):
            LA = set(fa.language_upto(A, n))
            tr = [(p, eps if a is None else a, q) for (p, a, q) in A[2]]
            o = call(ac.check_nfa_for_given_language, set(A[0]), tr, {A[3]}, set(A[4]), language, n)
            v = o.ok and isinstance(o.value, dict) and o.value.get('correct') is True
            judge(rec, 'automata_checker', 'check_nfa_for_given_language', v, LA == Lref, 'language', repr(o.value if o.ok else o.exc), answer=A, mutant=nm, instance=(language, n))


def fam_experimental(rec, rng):
    import gambatools.notebook_experimental as ne
    n = 4
    RG = exercises.nondegenerate_grammar(rng, 3, 6, 3)
    Lref = set(cf.language_upto(RG, n))
    allw = list(fa.words_upto(RG[1], n))
    acc = rng.sample(sorted(Lref), min(len(Lref), 5))
    rej = rng.sample([w for w in allw if w not in Lref], min(5, len(allw) - len(Lref)))
    for (nm, A) in [('reference', RG)] + mut.cfg_mutants(RG, rng, 8):
        if {x for (x, _) in A[2]} != set(A[0]) or not A[2] or A[2][0][0] != A[3]:
            continue
        LA = set(cf.language_upto(A, n))
        text = txt.render_simple_cfg(A, 'ε', rng)
        pok, out, o = run_checker(ne.check_cfg_accepts, text, exercises.wl(acc))
        judge(rec, 'experimental', 'check_cfg_accepts', pok, all(w in LA for w in acc), 'accepted_words', out, answer=text, mutant=nm, instance=exercises.wl(acc))
        pok, out, o = run_checker(ne.check_cfg_rejects, text, exercises.wl(rej))
        judge(rec, 'experimental', 'check_cfg_rejects', pok, not any(w in LA for w in rej), 'rejected_words', out, answer=text, mutant=nm, instance=exercises.wl(rej))


def fam_syntax(rec, rng):
    import gambatools.notebook as nb
    R = exercises.ref_dfa(rng, 3, 'ab')
    good = dfa_text(R, rng, True)
    pok, out, o = run_checker(nb.check_dfa_syntax, good)
    judge(rec, 'syntax', 'check_dfa_syntax', pok, True, '', out, answer=good)
    for (nm, text) in ill_formed_automaton_texts(good, rng):
        if nm == 'empty_text':
            continue
        pok, out, o = run_checker(nb.check_dfa_syntax, text)
        judge(rec, 'syntax', 'check_dfa_syntax', pok, False, 'ill_formed_text:' + nm, out, answer=text)
    N = exercises.ref_nfa(rng, 3)
    goodn = nfa_text(N, 'ε', rng, True)
    for (nm, text) in ill_formed_automaton_texts(goodn, rng):
        if nm == 'empty_text':
            continue
        pok, out, o = run_checker(nb.check_nfa_syntax, text)
        judge(rec, 'syntax', 'check_nfa_syntax', pok, False, 'ill_formed_text:' + nm, out, answer=text)
    k = len(N[0])
    for c in (k, k + 1, max(0, k - 1)):
        pok, out, o = run_checker(nb.check_number_of_nfa_states, goodn, c)
        judge(rec, 'syntax', 'check_number_of_nfa_states', pok, c == k, 'state_count', out, answer=goodn, instance=c)


def check_case(rec, case):
    rng = random.Random(case['iseed'])
    fam = case['fam']
    rec.note_case(case, fam, False)
    rec.trivial -= 1
    tmpdir = None
    try:
        if fam == 'language_from_file':
            tmpdir = tempfile.mkdtemp(prefix='vt_c12_')
            fam_language_from_file(rec, rng, tmpdir)
        elif fam == 'minimal_big':
            fam_minimal(rec, rng, big=True)
        else:
            globals()['fam_' + fam](rec, rng)
    finally:
        if tmpdir:
            shutil.rmtree(tmpdir, ignore_errors=True)


def gen_cases(rec, rng, tier):
    per = 150 if tier == 'thorough' else 10
    for fam in FAMILIES:
        k = per * (2 if fam in ('language_from_words', 'product', 'chomsky') else 1)
        if fam == 'dfa2regexp':
            k = max(3, per // 2)
        for _ in range(k):
            yield {'fam': fam, 'iseed': rng.randrange(10 ** 9)}
    if rec.shard == 1:
        yield {'fam': 'minimal_big', 'iseed': rng.randrange(10 ** 9)}


def run(rec, rng, tier):
    global _REC
    _REC = rec
    import sys
    sys.setrecursionlimit(20000)
    rc = common.replay_case()
    if rc is not None:
        check_case(rec, {'fam': rc['fam'], 'iseed': rc['iseed']})
        return
    for case in gen_cases(rec, rng, tier):
        check_case(rec, case)
