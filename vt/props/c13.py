"""C13 - the library's own answers pass its checkers (generator -> printer -> file -> parser -> checker)."""
import os
import shutil
import tempfile

from vt.props import common
from vt.props.common import call, report_failure
from vt import env, exercises
from vt.rec import jsonable

PROP = 'C13'
TITLE = 'own answers are accepted by the checkers'
SHARDS = {'quick': 16, 'thorough': 32}
TIMEOUT = {'quick': 420, 'thorough': 3600}
REQUIRED = ['notebook:' + t for t in exercises.TEMPLATES]
EXHAUSTIVE_NOTE = 'no complete sub-space: reference objects are sampled for each of the 20 exercise templates'
RULE = ('cases are exercise instances: for each of the 20 real notebook templates a reference object (DFA / NFA / pair of DFAs / non-degenerate simple-format grammar / CNF grammar + word / '
        'tame PDA / regexp / TM) is drawn at random, written to a file by an OWN renderer in a random layout (line order, optional declarations, comments, indentation), and the REAL '
        'make_notebook is run on the REAL template with answers switched on; the code cells of the produced notebook are then executed headlessly (simulate_* cells skipped) and every '
        'check cell must print OK. distinct = (template, reference object, settings); non-trivial = the reference has >= 2 transitions / rules')
ASSUMPTIONS = [
    'domain: \\w+ state names that are not keywords, letter/digit symbols (letters for DFA->regexp), grammars in simple format whose variables all derive a non-empty word, fresh start_variable T, '
    'PDAs whose epsilon closures stay below the default limit, CNF grammars with non-empty words',
    'the notebook cells are executed with exec() in one namespace per notebook, stdout captured per cell; OK = a stdout line equal to OK',
]


_TMP = None


def nontrivial(refs):
    for k in ('dfa', 'nfa', 'dfa1'):
        if k in refs:
            return len(refs[k][2]) >= 2
    if 'grammar' in refs:
        return len(refs['grammar'][2]) >= 2
    if 'pda' in refs:
        return len(refs['pda'][3]) >= 2
    if 'tm' in refs:
        return len(refs['tm'][3]) >= 2
    if 'regexp' in refs:
        return refs['regexp'][0] in '*+.'
    return False


def check_case(rec, case):
    import random
    mk = env.make_notebook_module()
    rng = random.Random(case['iseed'])
    # ONE directory and the same file names for all instances of this interpreter: the reference files are
    # rewritten in place, as when a user edits an input file and regenerates (anything cached under the file
    # NAME would serve the previous object)
    global _TMP
    if _TMP is None:
        _TMP = tempfile.mkdtemp(prefix='vt_c13_')
    tmpdir = _TMP
    try:
        inst = exercises.make_instance(rng, case['template'], tmpdir, 'i')
        if case.get('route') == 'batch':
            inst = exercises.to_batch(rng, inst, tmpdir, 'i')
            with open(inst['batch']['file'], encoding='utf8') as f:
                case = dict(case, batch_text=f.read())
            # the settings the generator derives from the paragraph + the reference file's header lines
            o = call(mk.parse_paragraph, inst['batch']['paragraph'])
            rec.ev('parse_paragraph')
            if not o.ok:
                rec.case = case
                report_failure(rec, o, 'parse_paragraph')
            else:
                got, exp = o.value, inst['batch']['expected']
                bad = sorted(k for k in set(got) | set(exp) if got.get(k) != exp.get(k))
                if bad:
                    rec.case = case
                    rec.violation('parse_paragraph:settings_differ', 'the settings derived from the batch paragraph and the reference file are not the key = value lines written there',
                                  keys=bad, got={k: got.get(k) for k in bad}, expected={k: exp.get(k) for k in bad})
        case = dict(case, settings={k: v for k, v in inst['settings'].items() if k not in ('templatefile',)}, refs=jsonable(inst['refs']))
        files = {}
        for k, v in inst['settings'].items():
            if k.startswith('inputfile'):
                with open(v, encoding='utf8') as f:
                    files[k] = f.read()
        case['files'] = files
        rec.note_case({k: case[k] for k in ('template', 'iseed', 'route') if k in case}, case['template'], nontrivial(inst['refs']))
        rec.case = case
        o = call(exercises.run_notebook, mk, inst, tmpdir, 'n', _cpu=120)
        rec.ev('notebook:' + case['template'])
        if not o.ok:
            report_failure(rec, o, 'make_notebook(%s)' % case['template'])
            return
        cells, gen_out = o.value
        if 'Warning' in gen_out or 'Error' in gen_out:
            rec.violation('%s:generator_message' % case['template'], 'the notebook generator printed a warning/error while computing its own answer', output=gen_out[:300])
        nchecks = 0
        for c in cells:
            if c['exception'] is not None and not c['is_check'] and 'show' in c['source']:
                rec.counters['show_cell_exception'] += 1
                continue
            if c['exception'] is not None:
                rec.violation('%s:cell_raised' % case['template'], 'a code cell of the generated notebook raised %s' % type(c['exception']).__name__,
                              cell=c['source'][:300], error=str(c['exception'])[:300])
                continue
            if c['is_check']:
                nchecks += 1
                rec.ev('check_cell')
                if not common.verdict_of(c['stdout']):
                    rec.violation('%s:own_answer_rejected' % case['template'], 'the checker does not print OK for the answer the library computed itself',
                                  cell=c['source'][:200], output=c['stdout'][:400])
        if nchecks == 0:
            rec.inconc('no check cell found in %s' % case['template'])
    finally:
        pass


def gen_cases(rec, rng, tier):
    per = 300 if tier == 'thorough' else 25
    for t in exercises.TEMPLATES:
        k = per
        if t == 'dfa-to-regexp':
            k = max(2, per // 3)
        for _ in range(k):
            yield {'template': t, 'iseed': rng.randrange(10 ** 9)}
        for _ in range(max(2, k // 3)):
            yield {'template': t, 'iseed': rng.randrange(10 ** 9), 'route': 'batch'}


def run(rec, rng, tier):
    rc = common.replay_case()
    if rc is not None:
        check_case(rec, {k: rc[k] for k in ('template', 'iseed', 'route') if k in rc})
        return
    try:
        for case in gen_cases(rec, rng, tier):
            check_case(rec, case)
    finally:
        if _TMP is not None:
            shutil.rmtree(_TMP, ignore_errors=True)
