"""C18 - NFA union, concatenation and star on arbitrary operands (any names, any epsilon symbol,
any number of earlier calls)."""
import inspect

from vt.props import common
from vt.props.common import call, report_failure, selfcheck
from vt import adapt
from vt.ref import fa
from vt.gen import fag
from vt.mon import contracts

PROP = 'C18'
TITLE = 'NFA union / concatenation / star'
SHARDS = {'quick': 8, 'thorough': 32}
TIMEOUT = {'quick': 420, 'thorough': 3000}
REQUIRED = ['nfa_union', 'nfa_concatenation', 'nfa_repetition']
EXHAUSTIVE_NOTE = 'all ordered pairs of NFAs with one state over {a} (+eps) and all single NFAs with <=2 states over <=1 symbol (+eps); larger operands are sampled'
RULE = ('cases are operand pairs with disjoint state sets and a common epsilon symbol from {"", "_", "ε", "e"}: enumerated tiny NFAs, seeded random NFAs (<=5 states, <=2 symbols), '
        'hostile families, operands produced by parse_nfa, state names drawn to collide with what the default IdentifierGenerator will produce next (its counter is read '
        'before the call) and with explicit generators; all cases of a shard run in one interpreter, so every call has a history of earlier calls through the default generator. '
        'Languages are compared EXACTLY with reference constructions. distinct = (operands, eps, generator mode); non-trivial = neither operand language is empty or universal')
ASSUMPTIONS = [
    'reference constructions for union / concatenation / star on disjoint copies; exact equivalence by own determinisation + product BFS',
    'operands share one epsilon symbol; the result is judged with ITS OWN epsilon attribute',
]

_REC = None


def valid(rec, name, X):
    from gambatools.nfa import NFA
    if not isinstance(X, NFA):
        rec.violation(name + ':not_an_nfa', '%s did not return an NFA' % name)
        return None
    R = adapt.nfa_ref(X)
    ok = fa.well_formed(R) and X.epsilon not in X.Sigma
    if ok:
        for (p, a) in X.delta:
            if a != X.epsilon and a not in X.Sigma:
                ok = False
    if not ok:
        rec.violation(name + ':invalid', 'the result of %s is not a valid NFA' % name, result=R, epsilon=X.epsilon)
        return None
    return R


def same(rec, name, R, Rexp, what, **d):
    S = tuple(sorted(set(R[1]) | set(Rexp[1])))
    w = fa.dfa_distinguish(fa.determinize(R)[0], fa.determinize(Rexp)[0], S)
    if w is not None:
        rec.violation(name + ':language_differs', 'the language of the result of %s is not the %s of the operand languages' % (name, what), word=w,
                      in_result=fa.accepts_graph(R, w), in_expected=fa.accepts_graph(Rexp, w), **d)


def snap2(N1, N2):
    return (adapt.nfa_ref(N1), adapt.nfa_ref(N2))


def post_union(N1, N2, result, OLD):
    rec = _REC
    rec.ev('nfa_union')
    R1, R2 = OLD.pre
    R = valid(rec, 'nfa_union', result)
    if R is None:
        return True
    new = set(R[0]) - set(R1[0]) - set(R2[0])
    if R[3] in set(R1[0]) | set(R2[0]) or len(new) != 1:
        rec.violation('nfa_union:new_state_not_fresh', 'the state introduced by nfa_union is not distinct from the operand states', initial=R[3], operand_states=sorted(set(R1[0]) | set(R2[0])))
        return True
    same(rec, 'nfa_union', R, fa.r_union_nfa(R1, R2), 'union', N1=R1, N2=R2)
    return True


def post_concat(N1, N2, result, OLD):
    rec = _REC
    rec.ev('nfa_concatenation')
    R1, R2 = OLD.pre
    R = valid(rec, 'nfa_concatenation', result)
    if R is None:
        return True
    same(rec, 'nfa_concatenation', R, fa.r_concat_nfa(R1, R2), 'concatenation', N1=R1, N2=R2)
    return True


def snap1(N):
    return adapt.nfa_ref(N)


def post_star(N, result, OLD):
    rec = _REC
    rec.ev('nfa_repetition')
    R1 = OLD.pre
    R = valid(rec, 'nfa_repetition', result)
    if R is None:
        return True
    new = set(R[0]) - set(R1[0])
    if R[3] in set(R1[0]) or len(new) != 1:
        rec.violation('nfa_repetition:new_state_not_fresh', 'the state introduced by nfa_repetition is not distinct from the operand states', initial=R[3], operand_states=list(R1[0]))
        return True
    same(rec, 'nfa_repetition', R, fa.r_star_nfa(R1), 'Kleene star', N=R1)
    return True


def install(rec):
    global _REC
    _REC = rec
    contracts.import_all()
    m = 'gambatools.nfa_algorithms'
    contracts.install(m, 'nfa_union', post=post_union, snapshot=snap2)
    contracts.install(m, 'nfa_concatenation', post=post_concat, snapshot=snap2)
    contracts.install(m, 'nfa_repetition', post=post_star, snapshot=snap1)


def next_default_name(fn):
    """what the shared default IdentifierGenerator of fn would produce next (None if unknown)"""
    try:
        f = getattr(fn, '__vt_original__', fn)
        g = inspect.signature(f).parameters['id_generator'].default
        return 'q%d' % g.index
    except Exception:
        return None


def nontriv(R):
    RD = fa.determinize(R)[0]
    return len(RD[4]) > 0 and fa.mn_count(RD, RD[0]) > 1


def render(R, eps):
    lines = ['initial ' + R[3], 'final ' + ' '.join(R[4]), 'states ' + ' '.join(R[0])]
    if R[1]:
        lines.append('input_symbols ' + ' '.join(R[1]))
    lines.append('epsilon ' + eps)
    for (p, a, q) in R[2]:
        lines.append('%s %s %s' % (p, q, eps if a is None else a))
    return '\n'.join(lines)


def check_case(rec, case):
    import gambatools.nfa_algorithms as na
    from gambatools.identifier_generator import IdentifierGenerator
    R1, R2 = case['ref1'], case['ref2']
    eps = case['eps']
    mode = case['gen']
    if mode == 'collide_default':
        # rename one state of an operand to the very name the default generator will hand out next
        nm = next_default_name(na.nfa_union)
        if nm is not None and nm not in R1[0] and nm not in R2[0]:
            R1 = fag.rename(R1, {q: (nm if i == len(R1[0]) - 1 else q) for i, q in enumerate(R1[0])})
            rec.counters['collision_with_default_generator_arranged'] += 1
        case = dict(case, ref1=R1)
    rec.note_case(case, case['cls'], nontriv(R1) and nontriv(R2))

    def build(R):
        if case.get('parsed') and eps:
            return na.parse_nfa(render(R, eps))
        return adapt.build_nfa(R, eps, case.get('container', 'defaultdict_set'), scramble=case.get('scr'))

    def gen():
        if mode == 'explicit':
            return (IdentifierGenerator(case.get('start', 0)),)
        return ()
    for (name, args) in (('nfa_union', (R1, R2)), ('nfa_concatenation', (R1, R2)), ('nfa_repetition', (R1,)), ('nfa_repetition', (R2,))):
        if name == 'nfa_repetition' and mode == 'collide_default':
            nm = next_default_name(na.nfa_repetition)
            R = args[0]
            if nm is not None and nm not in R[0]:
                args = (fag.rename(R, {q: (nm if i == 0 else q) for i, q in enumerate(R[0])}),)
        o = call(lambda: [build(R) for R in args])
        if not o.ok:
            rec.inconc('cannot build operands: %r' % (o.exc,))
            return
        ops = o.value
        extra = gen() if name != 'nfa_concatenation' else ()
        o = call(getattr(na, name), *ops, *extra)
        if not o.ok:
            report_failure(rec, o, name, eps=eps, operands=args)
    if mode != 'collide_default' and set(R1[0]).isdisjoint(R2[0]):
        pipeline(rec, case, na, build, R1, R2, eps)


def pipeline(rec, case, na, build, R1, R2, eps):
    """the constructions applied one after the other to the SAME operand objects (the property quantifies over any number
    of earlier calls): every result is compared with the reference construction on the operands AS THEY WERE BUILT, so an
    earlier call that damaged an operand it was given (directly or through a result that shares containers with it) shows"""
    o = call(lambda: (build(R1), build(R2)))
    if not o.ok:
        return
    A, B = o.value
    E_cat = fa.r_concat_nfa(R1, R2)
    steps = [('nfa_concatenation', lambda env_: na.nfa_concatenation(A, B), E_cat, 'cat'),
             ('nfa_repetition', lambda env_: na.nfa_repetition(env_['cat']), fa.r_star_nfa(E_cat), 'star_cat'),
             ('nfa_union', lambda env_: na.nfa_union(A, B), fa.r_union_nfa(R1, R2), 'uni'),
             ('nfa_repetition', lambda env_: na.nfa_repetition(B), fa.r_star_nfa(R2), 'star_B'),
             ('nfa_repetition', lambda env_: na.nfa_repetition(env_['uni']), fa.r_star_nfa(fa.r_union_nfa(R1, R2)), 'star_uni'),
             ('nfa_concatenation', lambda env_: na.nfa_concatenation(B, A), fa.r_concat_nfa(R2, R1), 'cat_BA'),
             ('nfa_union', lambda env_: na.nfa_union(B, A), fa.r_union_nfa(R2, R1), 'uni_BA'),
             ('nfa_repetition', lambda env_: na.nfa_repetition(A), fa.r_star_nfa(R1), 'star_A')]
    env_ = {}
    for (name, f, E, tag) in steps:
        o = call(f, env_)
        rec.counters['pipeline_steps'] += 1
        if not o.ok:
            report_failure(rec, o, name, what_prefix='after earlier calls on the same operand objects: ', eps=eps, N1=R1, N2=R2, step=tag)
            return
        env_[tag] = o.value
        R = valid(rec, name, o.value)
        if R is None:
            return
        S = tuple(sorted(set(R[1]) | set(E[1])))
        w = fa.dfa_distinguish(fa.determinize(R)[0], fa.determinize(E)[0], S)
        if w is not None:
            rec.violation(name + ':language_differs_after_earlier_calls', 'after earlier calls on the same operand objects the result of %s is not the language operation on the operands as built' % name,
                          word=w, step=tag, N1=R1, N2=R2)
            return


def disjoint(rng, R1, R2):
    """rename R2 so that the state sets are disjoint"""
    if set(R1[0]).isdisjoint(R2[0]):
        return R2
    names = fag.random_names(rng, len(R2[0]), avoid=tuple(R1[0]), exotic=True)
    return fag.rename(R2, dict(zip(R2[0], names)))


def gen_cases(rec, rng, tier):
    thorough = tier == 'thorough'
    tiny = [R for R in fag.enum_nfas(1, 1)]
    pairs = [(A, B) for A in tiny for B in tiny]
    for i, (A, B) in enumerate(common.shard_slice(pairs, rec)):
        B = fag.rename(B, {q: 'p' + q[1:] for q in B[0]})
        yield {'cls': 'enum_tiny_pair', 'ref1': A, 'ref2': B, 'eps': ('', '_', 'ε', 'e')[i % 4], 'gen': ('default', 'explicit', 'collide_default')[i % 3]}
    for i, A in enumerate(common.shard_slice(fag.enum_nfas(2, 1), rec)):
        B = tiny[i % len(tiny)]
        B = fag.rename(B, {q: 'p' + q[1:] for q in B[0]})
        yield {'cls': 'enum_small', 'ref1': A, 'ref2': B, 'eps': ('', '_', 'ε', 'e')[i % 4], 'gen': ('default', 'explicit', 'collide_default')[(i // 4) % 3], 'start': i % 5}
    for (cls, R) in fag.hostile_nfas(rng):
        other = fag.random_nfa(rng, rng.randint(1, 3), 2, eps_density=0.4, names=['p0', 'p1', 'p2'][:rng.randint(1, 3)])
        other = disjoint(rng, R, other)
        for eps in ('', 'ε'):
            yield {'cls': cls, 'ref1': R, 'ref2': other, 'eps': eps, 'gen': rng.choice(['default', 'explicit', 'collide_default']), 'parsed': eps != '' and rng.random() < 0.5}
    for _ in range(4000 if thorough else 400):
        k = rng.randint(1, 2)
        n1, n2 = rng.randint(1, 5), rng.randint(1, 5)
        style = rng.choice(['q_names', 'random_names', 'mixed'])
        if style == 'q_names':
            lo = rng.choice([0, 0, 3, 7, 95])
            pool = ['q%d' % i for i in range(lo, lo + 13)]
            if rng.random() < 0.5:
                rng.shuffle(pool)           # else: consecutive names q<lo>.. (spanning digit lengths when there are many)
            n1, n2 = rng.randint(1, 7), rng.randint(1, 6)
            names1, names2 = pool[:n1], pool[n1:n1 + n2]
        elif style == 'random_names':
            names1 = fag.random_names(rng, n1, exotic=True)
            names2 = fag.random_names(rng, n2, avoid=tuple(names1), exotic=True)
        else:
            names1 = ['q%d' % i for i in range(n1)]
            names2 = ['p%d' % i for i in range(n2)]
        R1 = fag.random_nfa(rng, len(names1), k, eps_density=rng.choice([0, 0.3, 0.8]), names=names1)
        R2 = fag.random_nfa(rng, len(names2), rng.randint(1, 2), eps_density=rng.choice([0, 0.3, 0.8]), names=names2)
        eps = rng.choice(['', '', '_', 'ε', 'e'])
        yield {'cls': 'random_pair/' + style, 'ref1': R1, 'ref2': R2, 'eps': eps, 'gen': rng.choice(['default', 'default', 'explicit', 'collide_default']),
               'start': rng.choice([0, 0, 1, 3, 9, 10, 11, 99]), 'container': rng.choice(adapt.NFA_KINDS), 'parsed': eps != '' and rng.random() < 0.3}


def run(rec, rng, tier):
    install(rec)
    rc = common.replay_case()
    if rc is not None:
        check_case(rec, rc)
        return
    for case in gen_cases(rec, rng, tier):
        check_case(rec, common.with_scramble(case))
