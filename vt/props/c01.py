"""C01 - DFA/NFA acceptance and epsilon closure equal the textbook definition."""
import itertools

from vt.props import common
from vt.props.common import call, report_failure, selfcheck
from vt import adapt
from vt.ref import fa
from vt.gen import fag
from vt.mon import contracts

PROP = 'C01'
TITLE = 'DFA/NFA acceptance and epsilon closure'
SHARDS = {'quick': 8, 'thorough': 32}
TIMEOUT = {'quick': 420, 'thorough': 3000}
REQUIRED = ['dfa_accepts_word', 'nfa_accepts_word', 'epsilon_closure', 'NFA.E']
EXHAUSTIVE = {'quick': False, 'thorough': False}
EXHAUSTIVE_NOTE = ('complete enumeration of all total DFAs with <=3 states over <=2 symbols and of all NFAs with <=2 states '
                   'over <=2 symbols plus epsilon, each with all words up to the bound; the rest of the workload is sampled')
RULE = ('cases are automata (enumerated small scope + seeded random + named hostile families, each in several delta '
        'container kinds / epsilon symbols); every case is run on ALL words over its alphabet up to the length bound and '
        'closure is queried for every state and for random state sets. distinct = canonical hash of (automaton, epsilon '
        'symbol, container kind, bound); non-trivial = its language up to the bound is neither empty nor all words')
ASSUMPTIONS = [
    'reference semantics: reachability in the (state, position) graph, cross-checked per case against an own subset construction',
    'words over the automaton\'s alphabet only; single-character symbols',
    'only executions produced by this workload are judged',
]

_REC = None


# ---------------------------------------------------------------- contracts (record, return True)
def post_dfa_accepts_word(D, word, result):
    rec = _REC
    rec.ev('dfa_accepts_word')
    R = adapt.dfa_ref(D)
    exp = fa.accepts_subset(R, word) if set(word) <= set(R[1]) else None
    if exp is not None and result is not exp and result != exp:
        rec.violation('dfa_accepts_word:wrong_answer', 'dfa_accepts_word answers %r, an accepting run %s' % (result, 'exists' if exp else 'does not exist'),
                      word=word, expected=exp, observed=result)
    return True


def post_nfa_accepts_word(N, word, result):
    rec = _REC
    rec.ev('nfa_accepts_word')
    R = adapt.nfa_ref(N)
    if not set(word) <= set(R[1]):
        return True
    exp = fa.accepts_subset(R, word) if len(R[0]) <= 20 else fa.accepts_graph(R, word)
    if result != exp or not isinstance(result, bool):
        rec.violation('nfa_accepts_word:wrong_answer', 'nfa_accepts_word answers %r, an accepting run %s' % (result, 'exists' if exp else 'does not exist'),
                      word=word, expected=exp, observed=result)
    return True


def _closure_expected(N, q):
    R = adapt.nfa_ref(N)
    S = set(q) if isinstance(q, (set, frozenset)) else {q}
    return fa.eps_closure_bfs(R, sorted(S))


def snap_closure(N, q):
    return (set(q) if isinstance(q, (set, frozenset)) else q)


def post_epsilon_closure(N, q, result, OLD):
    rec = _REC
    rec.ev('epsilon_closure')
    q0 = OLD.pre
    exp = _closure_expected(N, q0)
    if not isinstance(result, (set, frozenset)) or set(result) != set(exp):
        rec.violation('epsilon_closure:wrong_set', 'epsilon_closure differs from the set of states reachable by epsilon moves',
                      arg=sorted(q0) if isinstance(q0, set) else q0, expected=sorted(exp), observed=sorted(result) if isinstance(result, (set, frozenset)) else repr(result))
    if isinstance(q0, set) and isinstance(q, set) and q != q0:
        rec.violation('epsilon_closure:argument_mutated', 'epsilon_closure changed the state set passed as argument', before=sorted(q0), after=sorted(q))
    return True


def post_nfa_cache(N, result):
    rec = _REC
    rec.ev('_nfa_cache')
    Eq, Eqa = result
    R = adapt.nfa_ref(N)
    W = fa.eps_closure_warshall(R)
    m = fa.succ_map(R)
    for q in R[0]:
        if q not in Eq or set(Eq[q]) != set(W[q]):
            rec.violation('_nfa_cache:Eq_wrong', 'cached closure of a state differs from epsilon reachability', state=q,
                          expected=sorted(W[q]), observed=sorted(Eq[q]) if q in Eq else None)
            break
    for (p, a), Q1 in list(Eqa.items()):
        a_ref = None if a == N.epsilon else a
        exp = set()
        for t in m.get((p, a_ref), ()):
            exp |= W[t]
        if set(Q1) != exp:
            rec.violation('_nfa_cache:Eqa_wrong', 'cached closure of delta(q,a) differs from the definition', state=p, symbol=a,
                          expected=sorted(exp), observed=sorted(Q1))
            break
    return True


def install(rec):
    global _REC
    _REC = rec
    contracts.import_all()
    contracts.install('gambatools.dfa_algorithms', 'dfa_accepts_word', post=post_dfa_accepts_word)
    contracts.install('gambatools.nfa_algorithms', 'nfa_accepts_word', post=post_nfa_accepts_word)
    contracts.install('gambatools.nfa_algorithms', 'epsilon_closure', post=post_epsilon_closure, snapshot=snap_closure)
    try:
        contracts.install('gambatools.nfa_algorithms', '_nfa_cache', post=post_nfa_cache)
    except AttributeError:
        rec.counters['_nfa_cache_absent'] += 1


# ---------------------------------------------------------------- cases
def check_case(rec, case):
    import gambatools.dfa_algorithms as da
    import gambatools.nfa_algorithms as na
    kind = case['kind']
    R = case['ref']
    n = case['n']
    words = list(fa.words_upto(R[1], n))
    lang = fa.language_upto(R, n)
    nontrivial = 0 < len(lang) < len(words)
    words = words + [w for w in case.get('long_words', ())]
    rec.note_case(case, case['cls'], nontrivial)
    # oracle self-check on the live workload: reference A (graph) vs reference B (subset construction)
    selfcheck(rec, fa.language_upto_naive(R, min(n, 4)) == fa.language_upto(R, min(n, 4)), R)
    if kind == 'dfa':
        o = call(adapt.build_dfa, R, scramble=case.get('scr'))
        if not o.ok:
            rec.inconc('cannot build DFA: %r' % (o.exc,))
            return
        D = o.value
        for w in words:
            o = call(da.dfa_accepts_word, D, w)
            if not o.ok:
                report_failure(rec, o, 'dfa_accepts_word', word=w)
                break
        return
    o = call(adapt.build_nfa, R, case['eps'], case['container'], scramble=case.get('scr'))
    if not o.ok:
        rec.inconc('cannot build NFA: %r' % (o.exc,))
        return
    N = o.value
    if kind == 'nfa_mutate':
        import random as _r
        mr = _r.Random(case['mseed'])
        eps = case['eps']
        for step in range(4):
            for w in words:
                o = call(na.nfa_accepts_word, N, w)        # judged by the contract against the CURRENT content of N
                if not o.ok:
                    report_failure(rec, o, 'nfa_accepts_word', word=w, step=step)
                    return
            for q in sorted(N.Q):
                call(na.epsilon_closure, N, q)
            Rnow = adapt.nfa_ref(N)
            for S_ in [[q] for q in sorted(N.Q)] + [sorted(N.Q)[:2], sorted(N.Q)]:
                arg = S_[0] if len(S_) == 1 and mr.random() < 0.7 else set(S_)     # the method on the class, asked again after every change
                o = call(N.E, arg)
                rec.ev('NFA.E')
                exp = fa.eps_closure_bfs(Rnow, S_)
                if not o.ok:
                    report_failure(rec, o, 'NFA.E', states=S_, step=step)
                elif not isinstance(o.value, (set, frozenset)) or set(o.value) != set(exp):
                    rec.violation('NFA.E:wrong_set', 'N.E differs from epsilon reachability in the automaton as it is now', states=S_, step=step, expected=sorted(exp), observed=sorted(o.value), automaton=Rnow)
            # change the object in place: add / remove a move, an epsilon move, a state, toggle acceptance
            Q = sorted(N.Q)
            k = mr.randrange(5)
            p_, q_ = mr.choice(Q), mr.choice(Q)
            if k == 0:
                key = (p_, mr.choice(sorted(N.Sigma)))
                if key not in N.delta:
                    N.delta[key] = set()
                N.delta[key].add(q_)
            elif k == 1:
                key = (p_, eps)
                if key not in N.delta:
                    N.delta[key] = set()
                N.delta[key].add(q_)
            elif k == 2:
                keys = [k_ for k_ in N.delta if N.delta[k_]]
                if keys:
                    k_ = mr.choice(sorted(keys))
                    N.delta[k_].discard(mr.choice(sorted(N.delta[k_])))
            elif k == 3:
                N.Q.add('new%d' % step)
                if (p_, eps) not in N.delta:
                    N.delta[(p_, eps)] = set()
                N.delta[(p_, eps)].add('new%d' % step)
                N.F.add('new%d' % step)
            else:
                N.F ^= {q_}
        return
    for w in words:
        o = call(na.nfa_accepts_word, N, w)
        if not o.ok:
            report_failure(rec, o, 'nfa_accepts_word', container=case['container'], word=w)
            break
    big = len(R[0]) > 60
    qs = list(R[0]) if not big else [R[0][0], R[0][len(R[0]) // 2], R[0][-1]]        # huge automata: the closure of a few states only
    W = fa.eps_closure_warshall(R) if not big else {q: fa.eps_closure_bfs(R, [q]) for q in qs}
    for q in qs:
        selfcheck(rec, W[q] == fa.eps_closure_bfs(R, [q]))
        o = call(na.epsilon_closure, N, q)
        if not o.ok:
            report_failure(rec, o, 'epsilon_closure', container=case['container'], state=q)
            break
        o = call(N.E, q)
        rec.ev('NFA.E')
        if not o.ok:
            report_failure(rec, o, 'NFA.E', container=case['container'], state=q)
            break
        if set(o.value) != set(W[q]):
            rec.violation('NFA.E:wrong_set', 'N.E(q) differs from epsilon reachability', state=q, expected=sorted(W[q]), observed=sorted(o.value))
    for S in case.get('sets', ()):
        o = call(na.epsilon_closure, N, set(S))
        if not o.ok:
            report_failure(rec, o, 'epsilon_closure', container=case['container'], states=S)
            break
        o = call(N.E, set(S))
        rec.ev('NFA.E')
        if o.ok:
            exp = fa.eps_closure_bfs(R, S)
            if set(o.value) != set(exp):
                rec.violation('NFA.E:wrong_set', 'N.E(S) differs from epsilon reachability', states=S, expected=sorted(exp), observed=sorted(o.value))
        else:
            report_failure(rec, o, 'NFA.E', container=case['container'], states=S)


def gen_cases(rec, rng, tier):
    thorough = tier == 'thorough'
    nw = 5 if thorough else 4
    # 1. exhaustive small scope
    for R in common.shard_slice(fag.enum_dfas(3, 2), rec):
        yield {'kind': 'dfa', 'cls': 'enum_dfa', 'ref': R, 'n': nw}
    conts = adapt.NFA_KINDS
    for i, R in enumerate(common.shard_slice(fag.enum_nfas(2, 2), rec)):
        yield {'kind': 'nfa', 'cls': 'enum_nfa', 'ref': R, 'n': 4, 'eps': ('', '_', 'ε', 'e')[i % 4], 'container': conts[(i // 4) % 3], 'sets': [list(R[0])] + [[q] for q in R[0]] + [[]]}
    if thorough:
        # sampled slices of the next enumeration levels
        for i, R in enumerate(fag.enum_nfas(3, 1, 1)):
            if len(R[0]) == 3 and i % 40 == (rec.seed % 40) and (i // 40) % rec.nshards == rec.shard:
                yield {'kind': 'nfa', 'cls': 'enum_nfa_3_states_sampled', 'ref': R, 'n': 4, 'eps': ('', '_')[i % 2], 'container': conts[i % 4], 'sets': [list(R[0][:2])]}
        for i, R in enumerate(fag.enum_dfas(4, 2, 2)):
            if len(R[0]) == 4 and i % 60 == (rec.seed % 60) and (i // 60) % rec.nshards == rec.shard:
                yield {'kind': 'dfa', 'cls': 'enum_dfa_4_states_sampled', 'ref': R, 'n': 5}
    # 2. hostile families, every container kind and epsilon symbol
    for (cls, R) in fag.hostile_nfas(rng):
        for eps in ('', '_', 'ε', 'e'):
            for cont in conts:
                yield {'kind': 'nfa', 'cls': cls + '/' + cont, 'ref': R, 'n': 4, 'eps': eps, 'container': cont, 'sets': _sets(rng, R)}
    for (cls, R) in fag.hostile_dfas(rng):
        yield {'kind': 'dfa', 'cls': 'dfa_' + cls, 'ref': R, 'n': 5}
    # long epsilon runs (closures that need many steps) and Thompson-style automata
    for k in (5, 6, 7, 9, 10, 12, 15, 17, 20, 33):
        if (k + rec.shard) % 2 == 0:
            for back in (False, True):
                yield {'kind': 'nfa', 'cls': 'eps_chain', 'ref': fag.eps_chain(k, back_edge=back, accept_end=(k % 3 != 0)), 'n': 3, 'eps': rng.choice(['', 'ε']),
                       'container': rng.choice(conts), 'sets': [['c00'], ['c%02d' % (k // 2)]]}
    if rec.shard % 4 == 1:
        for k in (1100,):
            yield {'kind': 'nfa', 'cls': 'eps_chain_beyond_recursion_limit', 'ref': fag.eps_chain(k, accept_end=True), 'n': 1, 'eps': '', 'container': 'defaultdict_set',
                   'sets': [['c00'], ['c%02d' % (k // 2)]]}
    for R in fag.thompson_nfas(rng, 40 if thorough else 10):
        yield {'kind': 'nfa', 'cls': 'thompson_nfa', 'ref': R, 'n': 4, 'eps': rng.choice(['', '_']), 'container': rng.choice(conts), 'sets': _sets(rng, R)}
    # the same OBJECT queried, changed in place, and queried again (a stale per-object cache would answer for the old automaton)
    for _ in range(120 if thorough else 30):
        n = rng.randint(2, 5)
        R = fag.random_nfa(rng, n, 2, eps_density=rng.choice([0.2, 0.6]))
        yield {'kind': 'nfa_mutate', 'cls': 'requery_after_in_place_change', 'ref': R, 'n': 3, 'eps': rng.choice(['', '_']), 'container': rng.choice(conts), 'mseed': rng.randrange(10 ** 9)}
    # 3. seeded random
    for _ in range(2000 if thorough else 150):
        n = rng.randint(1, 7 if thorough else 6)
        k = rng.randint(0, 3)
        R = fag.maybe_digits(rng, fag.random_nfa(rng, n, k, eps_density=rng.choice([0.0, 0.2, 0.6, 1.0]), names=rng.choice([None, fag.random_names(rng, n, exotic=True)])))
        cont = rng.choice(conts)
        yield {'kind': 'nfa', 'cls': 'random_nfa/' + cont, 'ref': R, 'n': {0: 3, 1: 8, 2: 6 if thorough else 5, 3: 5 if thorough else 4}[k],
               'eps': rng.choice(['', '_', 'ε', 'e']), 'container': cont, 'sets': _sets(rng, R)}
    # beyond the small scopes: many states, alphabets of 4..8 symbols, sampled LONG words (boundaries such as 9/10 states,
    # 16/17 or 32/33 letters are invisible to 'all words up to 6 on at most 8 states')
    for _ in range(200 if thorough else 14):
        n = rng.choice([9, 10, 11, 12, 16, 17, 26, 27, 33, 40])
        k = rng.choice([1, 2, 4, 5, 8])
        R = fag.random_dfa(rng, n, k, p_final=rng.choice([0.2, 0.5]))
        yield {'kind': 'dfa', 'cls': 'large_dfa_long_words', 'ref': R, 'n': 2 if k <= 5 else 1, 'long_words': fag.long_words(rng, R[1])}
        n = rng.choice([9, 10, 11, 12, 16, 17, 33, 54, 64, 65, 70])
        k = rng.choice([1, 2, 4])
        R = fag.random_nfa(rng, n, k, eps_density=rng.choice([0.2, 0.5]), density=rng.choice([1.0, 1.6]) / n)
        cont = rng.choice(conts)
        yield {'kind': 'nfa', 'cls': 'large_nfa_long_words/' + cont, 'ref': R, 'n': 2, 'long_words': fag.long_words(rng, R[1], 16), 'eps': rng.choice(['', '_']),
               'container': cont, 'sets': [list(R[0])[:3], list(R[0])]}
    for _ in range(1000 if thorough else 80):
        n = rng.randint(1, 8)
        k = rng.randint(1, 3)
        R = fag.maybe_digits(rng, fag.random_dfa(rng, n, k, names=rng.choice([None, fag.random_names(rng, n, exotic=True)])))
        yield {'kind': 'dfa', 'cls': 'random_dfa', 'ref': R, 'n': {1: 10, 2: 7 if thorough else 6, 3: 5}[k]}


def _sets(rng, R):
    Q = list(R[0])
    if len(Q) <= 5:
        import itertools
        return [list(c) for r in range(len(Q) + 1) for c in itertools.combinations(Q, r)]
    out = [[], list(Q)]
    for _ in range(3):
        out.append(sorted(rng.sample(Q, rng.randint(1, len(Q)))))
    return out


def run(rec, rng, tier):
    install(rec)
    rc = common.replay_case()
    if rc is not None:
        check_case(rec, rc)
        return
    for case in gen_cases(rec, rng, tier):
        check_case(rec, common.with_scramble(case))
