"""C05 - regexp matcher and simplifier follow the denotational semantics."""
from vt.props import common
from vt.props.common import call, report_failure, selfcheck
from vt import adapt
from vt.ref import rx, fa
from vt.gen import rxg, fag
from vt.mon import contracts

PROP = 'C05'
TITLE = 'regexp matching and simplification'
SHARDS = {'quick': 8, 'thorough': 32}
TIMEOUT = {'quick': 420, 'thorough': 3000}
REQUIRED = ['regexp_accepts_word', 'regexp_simplify']
EXHAUSTIVE_NOTE = 'all expression trees with <=6 nodes (<=7 in the thorough tier) over the leaves {0,1,a,b}, each with all words over {a,b} up to the bound plus words with a foreign symbol'
RULE = ('cases are expression trees: complete enumeration by node count, seeded random deep trees (depth <=12) biased to (r*)*, (1+r)*, (0r)*, 0/1 inside '
        'products and sums, and degenerate combs; the matcher is asked for ALL words up to the bound (shorter for deep trees; a call that exceeds the CPU '
        'guard is an inconclusive case, the matcher is exponential on nested stars); the simplifier is compared EXACTLY (automata product) and by node count. '
        'distinct = the tree; non-trivial = it contains a star or a 0/1 leaf and its language up to the bound is neither empty nor everything')
ASSUMPTIONS = [
    'reference A: set-valued denotation restricted to length <= n; reference B: Brzozowski derivatives; both cross-checked per case',
    'exact language equality through an own Thompson construction, own determinisation and product BFS',
    'single-letter symbols',
]

_REC = None


def post_regexp_accepts_word(r, w, result):
    rec = _REC
    rec.ev('regexp_accepts_word')
    t = adapt.rx_ref(r)
    exp = rx.matches_deriv(t, w)
    if result is not exp and result != exp or not isinstance(result, bool):
        rec.violation('regexp_accepts_word:wrong_answer', 'regexp_accepts_word answers %r but the word is %sin the denoted language' % (result, '' if exp else 'not '),
                      regexp=rx.show(t), word=w, expected=exp, observed=result)
    return True


def snap_simplify(r):
    return adapt.rx_ref(r)


def post_regexp_simplify(r, result, OLD):
    rec = _REC
    rec.ev('regexp_simplify')
    from gambatools.regexp import Regexp
    t = OLD.pre
    if adapt.rx_ref(r) != t:
        rec.violation('regexp_simplify:input_changed', 'regexp_simplify changed its argument', before=rx.show(t), after=rx.show(adapt.rx_ref(r)))
    if not isinstance(result, Regexp):
        rec.violation('regexp_simplify:not_a_regexp', 'regexp_simplify returned %r' % (result,))
        return True
    s = adapt.rx_ref(result)
    if rx.size_iter(s) > rx.size_iter(t):
        rec.violation('regexp_simplify:larger', 'the simplified expression is larger than its argument', regexp=rx.show(t), simplified=rx.show(s))
    w = rx.distinguish(t, s)
    if w is not None:
        rec.violation('regexp_simplify:language_differs', 'the simplified expression denotes a different language', regexp=rx.show(t), simplified=rx.show(s), word=w)
    return True


def install(rec):
    global _REC
    _REC = rec
    contracts.import_all()
    contracts.install('gambatools.regexp_algorithms', 'regexp_accepts_word', post=post_regexp_accepts_word)
    contracts.install('gambatools.regexp_algorithms', 'regexp_simplify', post=post_regexp_simplify, snapshot=snap_simplify)


def check_case(rec, case):
    import gambatools.regexp_algorithms as ra
    t = case['tree']
    n = case['n']
    D = rx.denot(t, n)
    alpha = ''.join(sorted(rx.symbols(t))) if case.get('own_alphabet') else case.get('word_alphabet', 'ab')
    words = list(fa.words_upto(alpha or 'a', n))
    special = any(x in repr(t) for x in ("'*'", "'0'", "'1'"))
    rec.note_case(case, case['cls'], special and 0 < len(D) < len(words))
    # oracle self-check: denotation (A) vs derivatives (B) on all words
    selfcheck(rec, all((w in D) == rx.matches_deriv(t, w) for w in words), t)
    r = adapt.build_rx(t)
    extra = ['c', 'ac', 'ca'] if n >= 2 else ['c']
    for w in ([] if case.get('simplify_only') else words + extra + list(case.get('long_words', ()))):
        o = call(ra.regexp_accepts_word, r, w, _cpu=case.get('cpu', 20))
        if o.kind == 'timeout':
            rec.inconc('matcher exceeded the CPU guard (exponential on nested stars)')
            break
        if not o.ok:
            report_failure(rec, o, 'regexp_accepts_word', regexp=rx.show(t), word=w)
            break
    if case.get('no_simplify'):
        return
    o = call(ra.regexp_simplify, r)
    if not o.ok:
        report_failure(rec, o, 'regexp_simplify', regexp=rx.show(t))
    if case['cls'].startswith('random') and rx.size_iter(t) <= 12:
        # (1) an expression built from SHARED sub-expression objects (one object under several parents, as dfa_to_regexp
        # returns them), (2) the same object asked again after one of its nodes was changed in place; the contracts judge
        # every call against the content of the expression at the time of the call
        import gambatools.regexp as gr
        shared = gr.Sum(gr.Concat(r, r), gr.Iteration(r))
        for X in (shared, None):
            if X is None:
                if not isinstance(r, (gr.Sum, gr.Concat)):
                    break
                r.left, r.right = r.right, gr.Iteration(r.left)
                X = r
                rec.counters['requery_after_in_place_change'] += 1
            else:
                rec.counters['shared_subexpression_objects'] += 1
            for w in words[:15]:
                o = call(ra.regexp_accepts_word, X, w, _cpu=10)
                if o.kind == 'timeout':
                    break
                if not o.ok:
                    report_failure(rec, o, 'regexp_accepts_word', regexp=rx.show(adapt.rx_ref(X)), word=w, derived_object=True)
                    break
            o = call(ra.regexp_simplify, X)
            if not o.ok and o.kind != 'timeout':
                report_failure(rec, o, 'regexp_simplify', regexp=rx.show(adapt.rx_ref(X)), derived_object=True)


def gen_cases(rec, rng, tier):
    thorough = tier == 'thorough'
    for t in common.shard_slice(rxg.enum_trees(7 if thorough else 6), rec):
        yield {'cls': 'enum_tree', 'tree': t, 'n': 5 if thorough else 4}
    # the simplifier alone is cheap: one more level of the enumeration, and operands that are near duplicates
    # of each other (rules of the kind r + r -> r must compare the operands exactly)
    for t in common.shard_slice(rxg.trees_with_nodes(8 if thorough else 7), rec):
        yield {'cls': 'enum_tree_simplify_only', 'tree': t, 'n': 2, 'simplify_only': True}
    from vt.gen import mut
    for _ in range(400 if thorough else 120):
        t = rxg.random_tree(rng, rng.randint(1, 5), 'ab', bias=rng.choice([None, 'star', 'unit']))
        if rx.size_iter(t) > 30:
            continue
        variants = [t] + [m for (_, m) in mut.rx_mutants(t, rng, limit=3)]
        t2 = rng.choice(variants)
        for op in '+.':
            yield {'cls': 'near_duplicate_operands', 'tree': (op, t, t2), 'n': 3, 'cpu': 2, 'simplify_only': rx.size_iter(t) > 8}
            yield {'cls': 'near_duplicate_starred_operands', 'tree': (op, ('*', t), ('*', t2)), 'n': 3, 'cpu': 2, 'simplify_only': rx.size_iter(t) > 6}
        yield {'cls': 'near_duplicate_starred_operands', 'tree': ('*', ('.', t, t2)), 'n': 3, 'cpu': 2, 'simplify_only': rx.size_iter(t) > 6}
        if t[0] in '+.':
            sw = (t[0], t[2], t[1])
            for op in '+.':
                yield {'cls': 'operands_swapped', 'tree': (op, ('*', t), ('*', sw)), 'n': 4, 'cpu': 2, 'simplify_only': rx.size_iter(t) > 6}
                yield {'cls': 'operands_swapped', 'tree': (op, t, sw), 'n': 4, 'cpu': 2, 'simplify_only': rx.size_iter(t) > 8}
    for t in common.shard_slice(rxg.enum_trees(6 if thorough else 5, rxg.LEAVES01), rec):
        yield {'cls': 'enum_tree_digit_symbols', 'tree': t, 'n': 4, 'own_alphabet': True}
    for _ in range(60 if thorough else 20):
        t = rxg.random_tree(rng, rng.randint(3, 8), '01', bias=rng.choice([None, 'star', 'unit']))
        if rx.size_iter(t) <= 60:
            yield {'cls': 'random_digit_symbols', 'tree': t, 'n': 4, 'cpu': 2, 'own_alphabet': True}
    for bias in (None, 'star', 'unit'):
        for _ in range(120 if thorough else 40):
            d = rng.randint(3, 12)
            t = rxg.random_tree(rng, d, 'ab', p_leaf=rng.choice([0.15, 0.3]), bias=bias)
            sz = rx.size_iter(t)
            if sz > 400:
                continue
            n = 6 if sz <= 12 else (4 if sz <= 40 else 3)
            yield {'cls': 'random_%s' % (bias or 'plain'), 'tree': t, 'n': n, 'cpu': 2}
            if sz <= 14:
                # long words (all words up to n stop at length 6): sampled, and words of the language itself pumped up
                lw = fag.long_words(rng, 'ab', 6, lengths=(9, 10, 12, 16, 17, 24))
                D6 = sorted(rx.denot(t, 4))
                for w0 in D6[-3:]:
                    if w0:
                        lw.append((w0 * 12)[:rng.choice([9, 11, 16])])
                yield {'cls': 'random_%s_long_words' % (bias or 'plain'), 'tree': t, 'n': 1, 'cpu': 2, 'long_words': lw}
    # a star over a sum of WORDS of different lengths (a + aab + bb)*: matching needs to go back and forth between the end positions
    # reachable from different start positions
    def word_tree(w):
        t = ('s', w[0])
        for ch in w[1:]:
            t = ('.', t, ('s', ch))
        return t
    for _ in range(300 if thorough else 40):
        ws = []
        for _k in range(rng.randint(2, 4)):
            ws.append(''.join(rng.choice('ab') for _x in range(rng.randint(1, 3))))
        t = word_tree(ws[0])
        for w in ws[1:]:
            t = ('+', t, word_tree(w)) if rng.random() < 0.5 else ('+', word_tree(w), t)
        t = ('*', t)
        if rng.random() < 0.3:
            t = ('.', t, word_tree(rng.choice(ws)))
        yield {'cls': 'star_over_sum_of_words', 'tree': t, 'n': 6, 'cpu': 2}
    # symbols whose names have several characters (the full text format reads identifiers such as ab or q0 as ONE symbol); the
    # names are chosen so that concatenations are ambiguous (ab . c / a . bc / abc); matcher only
    for _ in range(150 if thorough else 25):
        t = rxg.random_tree(rng, rng.randint(1, 4), ['ab', 'c', 'a', 'bc', 'abc', 'b'], bias=rng.choice([None, 'star', 'unit']))
        if rx.size_iter(t) <= 14:
            yield {'cls': 'multi_character_symbols', 'tree': t, 'n': 5, 'cpu': 2, 'word_alphabet': 'abc', 'no_simplify': True}
    for op in '+.':
        for left in (True, False):
            for d in (5, 30, 120):
                yield {'cls': 'comb', 'tree': rxg.comb(d, op, left=left), 'n': 3 if d > 5 else 5, 'cpu': 2}
    for d in (2, 5, 9):
        t = ('s', 'a')
        for _ in range(d):
            t = ('*', t)
        yield {'cls': 'star_tower', 'tree': t, 'n': 5}
        t = ('1',)
        for _ in range(d):
            t = ('*', ('+', t, ('s', 'b')))
        yield {'cls': 'star_tower_nullable', 'tree': t, 'n': 4}


def run(rec, rng, tier):
    install(rec)
    import sys
    sys.setrecursionlimit(20000)
    rc = common.replay_case()
    if rc is not None:
        check_case(rec, rc)
        return
    for case in gen_cases(rec, rng, tier):
        check_case(rec, case)
