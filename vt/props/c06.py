"""C06 - regexp -> NFA and DFA -> regexp preserve the language exactly, whatever the
state-elimination order."""
import inspect

from vt.props import common
from vt.props.common import call, report_failure, selfcheck
from vt import adapt
from vt.rec import h64
from vt.ref import rx, fa
from vt.gen import rxg, fag
from vt.mon import contracts, hooks

PROP = 'C06'
TITLE = 'regexp -> NFA and DFA -> regexp'
SHARDS = {'quick': 8, 'thorough': 32}
TIMEOUT = {'quick': 420, 'thorough': 3000}
REQUIRED = ['regexp_to_nfa', 'dfa_to_regexp']          # the elimination-order probe is auxiliary (depends on local variable names)
EXHAUSTIVE_NOTE = 'all expression trees with <=6 nodes (regexp->NFA) and all total DFAs with <=3 states over <=2 symbols (DFA->regexp)'
RULE = ('regexp->NFA: enumerated trees <=6 nodes + random deep trees; DFA->regexp: enumerated DFAs <=3 states + random <=5 states (<=6 thorough) + isomorphic '
        'copies with random names, each shard under its own PYTHONHASHSEED; the elimination order is read from inside gnfa_minimize by a LINE hook. '
        'Equivalence is decided EXACTLY: own Thompson construction of the (possibly huge) result, own determinisation, product BFS. '
        'distinct = tree / DFA; non-trivial = language neither empty nor universal')
ASSUMPTIONS = [
    'exact language equality via reference automata; results above 60000 nodes are counted inconclusive (size is exponential in |Q|)',
    'elimination order is varied through PYTHONHASHSEED x state renaming and the distinct orders observed are counted',
]

_REC = None
_LM = None
_CUR = {}
NODE_CAP = 60000


def post_regexp_to_nfa(x, result):
    rec = _REC
    rec.ev('regexp_to_nfa')
    from gambatools.nfa import NFA
    t = adapt.rx_ref(x)
    if not isinstance(result, NFA):
        rec.violation('regexp_to_nfa:not_an_nfa', 'regexp_to_nfa returned %r' % (result,))
        return True
    R = adapt.nfa_ref(result)
    if not fa.well_formed(R) or result.epsilon in result.Sigma:
        rec.violation('regexp_to_nfa:invalid', 'regexp_to_nfa returned an invalid NFA', regexp=rx.show(t), nfa=R)
        return True
    S = tuple(sorted(set(R[1]) | rx.symbols_iter(t)))
    w = fa.dfa_distinguish(fa.determinize(R)[0], rx.to_dfa(t, S), S)
    if w is not None:
        rec.violation('regexp_to_nfa:language_differs', 'the NFA built for a regexp disagrees with the denoted language', regexp=rx.show(t), word=w,
                      in_language=rx.matches_deriv(t, w))
    return True


def snap_d2r(D):
    return adapt.dfa_ref(D)


def post_dfa_to_regexp(D, result, OLD):
    rec = _REC
    rec.ev('dfa_to_regexp')
    from gambatools.regexp import Regexp
    R = OLD.pre
    if adapt.dfa_ref(D) != R:
        rec.violation('dfa_to_regexp:input_changed', 'dfa_to_regexp changed its argument')
    if not isinstance(result, Regexp):
        rec.violation('dfa_to_regexp:not_a_regexp', 'dfa_to_regexp returned %r' % (result,))
        return True
    t = adapt.rx_ref(result)
    sz = rx.size_iter(t)
    rec.extra['max_result_nodes'] = [max(sz, (rec.extra.get('max_result_nodes') or [0])[0])]
    if sz > NODE_CAP:
        rec.inconc('dfa_to_regexp result above the node cap')
        return True
    S = tuple(R[1])
    if not rx.symbols_iter(t) <= set(S):
        rec.violation('dfa_to_regexp:foreign_symbol', 'the extracted expression uses symbols outside the alphabet')
        return True
    w = fa.dfa_distinguish(rx.to_dfa(t, S), R, S)
    if w is not None:
        rec.violation('dfa_to_regexp:language_differs', 'the expression extracted from a DFA denotes a different language', dfa=R, word=w,
                      dfa_accepts=fa.accepts_graph(R, w), regexp=rx.show(t)[:300])
    return True


def install(rec):
    global _REC, _LM
    _REC = rec
    contracts.import_all()
    import gambatools.regexp_algorithms as ra
    contracts.install('gambatools.regexp_algorithms', 'regexp_to_nfa', post=post_regexp_to_nfa)
    contracts.install('gambatools.regexp_algorithms', 'dfa_to_regexp', post=post_dfa_to_regexp, snapshot=snap_d2r)
    lm = hooks.LineMonitor()
    gm = ra.gnfa_minimize
    lm.watch(gm, 'gnfa_minimize')
    src, first = inspect.getsourcelines(gm)
    rip_line = None
    for i, l in enumerate(src):
        if 'Q.remove(q_rip)' in l:
            rip_line = first + i
    if rip_line is None:
        rec.counters['gnfa_hook_unavailable'] += 1

    def probe(frame, line):
        if line == rip_line and 'q_rip' in frame.f_locals:
            rec.ev('gnfa_elimination_order')
            _CUR.setdefault('order', []).append(frame.f_locals['q_rip'])
    lm.probe_all(gm, probe)
    lm.start()
    _LM = lm


def check_case(rec, case):
    import gambatools.regexp_algorithms as ra
    if case['kind'] == 'rx':
        t = case['tree']
        Dn = rx.denot(t, 3)
        rec.note_case(case, case['cls'], 0 < len(Dn) < 15)
        selfcheck(rec, fa.language_upto(rx.thompson(t, 'ab'), 3) == frozenset(w for w in Dn if set(w) <= set('ab')) or not rx.symbols(t) <= set('ab'), t)
        r = adapt.build_rx(t)
        o = call(ra.regexp_to_nfa, r)
        if not o.ok:
            report_failure(rec, o, 'regexp_to_nfa', regexp=rx.show(t))
        # the same expression OBJECT converted again after one of its nodes was changed in place, and an expression built
        # from SHARED sub-expression objects (dfa_to_regexp returns such DAGs): judged against the content at call time
        import gambatools.regexp as gr
        if isinstance(r, (gr.Sum, gr.Concat)) and case['cls'].startswith('random') and rx.size_iter(t) <= 40:
            r.left, r.right = r.right, gr.Iteration(r.left)
            o = call(ra.regexp_to_nfa, r)
            if not o.ok:
                report_failure(rec, o, 'regexp_to_nfa', regexp=rx.show(adapt.rx_ref(r)), after_in_place_change=True)
            shared = gr.Sum(gr.Concat(r, r), gr.Iteration(r.left))
            o = call(ra.regexp_to_nfa, shared)
            if not o.ok:
                report_failure(rec, o, 'regexp_to_nfa', regexp=rx.show(adapt.rx_ref(shared)), shared_subexpressions=True)
        return
    R = case['ref']
    rec.note_case(case, case['cls'], len(R[4]) > 0 and fa.mn_count(R, sorted(fa.reachable(R))) > 1)
    D = adapt.build_dfa(R, scramble=case.get('scr'))
    _CUR.clear()
    o = call(ra.dfa_to_regexp, D)
    if _CUR.get('order') is not None:
        # order relative to the un-renamed base automaton: positions of the states in sorted order
        pos = case.get('back') or {q: q for q in R[0]}
        rec.schedule(case.get('iso', 'x'), [pos.get(q, q) for q in _CUR['order']])
    _CUR.clear()
    if not o.ok:
        report_failure(rec, o, 'dfa_to_regexp', dfa=R)
    if len(R[0]) >= 2 and case['cls'].startswith('random') and common.mutate_in_place(D, repr(R)):
        # the same DFA object after an in-place change
        o = call(ra.dfa_to_regexp, D)
        _CUR.clear()
        rec.counters['requery_after_in_place_change'] += 1
        if not o.ok:
            report_failure(rec, o, 'dfa_to_regexp', dfa=adapt.dfa_ref(D), after_in_place_change=True)


def gen_cases(rec, rng, tier):
    thorough = tier == 'thorough'
    for t in common.shard_slice(rxg.enum_trees(6), rec):
        yield {'kind': 'rx', 'cls': 'enum_tree', 'tree': t}
    for bias in (None, 'star', 'unit'):
        for _ in range(500 if thorough else 40):
            t = rxg.random_tree(rng, rng.randint(3, 12), rng.choice(['ab', 'abc', 'a']), p_leaf=rng.choice([0.15, 0.3]), bias=bias)
            if rx.size_iter(t) <= 600:
                yield {'kind': 'rx', 'cls': 'random_%s' % (bias or 'plain'), 'tree': t}
    for t in common.shard_slice(rxg.enum_trees(4, (('0',), ('1',), ('s', '_'), ('s', 'a'))), rec):
        yield {'kind': 'rx', 'cls': 'enum_tree_underscore_symbol', 'tree': t}
    for _ in range(60 if thorough else 15):
        t = rxg.random_tree(rng, rng.randint(2, 6), rng.choice(['_a', 'ε_', 'e#', '$a']), bias=rng.choice([None, 'star', 'unit']))
        if rx.size_iter(t) <= 80:
            yield {'kind': 'rx', 'cls': 'random_special_symbols', 'tree': t}
    for op in '+.':
        for left in (True, False):
            yield {'kind': 'rx', 'cls': 'comb', 'tree': rxg.comb(60, op, left=left)}
    for R in common.shard_slice(fag.enum_dfas(3, 2), rec):
        yield {'kind': 'dfa', 'cls': 'enum_dfa', 'ref': R, 'iso': h64(R)}
    # binary alphabets: the symbols print like the regexp constants 0 and 1
    for i, R in enumerate(common.shard_slice(fag.enum_dfas(3, 2), rec)):
        if i % 2 == 0:
            R2 = fag.with_alphabet(R, ('0', '1') if (i // 2) % 2 == 0 else ('1', '0'))
            yield {'kind': 'dfa', 'cls': 'enum_dfa_binary', 'ref': R2, 'iso': h64(R2)}
    for t in common.shard_slice(rxg.enum_trees(5, rxg.LEAVES01), rec):
        yield {'kind': 'rx', 'cls': 'enum_tree_digit_symbols', 'tree': t}
    for (cls, R) in fag.hostile_dfas(rng):
        if len(R[0]) <= 5:
            yield {'kind': 'dfa', 'cls': 'hostile_' + cls, 'ref': R, 'iso': h64(R)}
    for _ in range(500 if thorough else 30):
        n = rng.randint(2, 6 if thorough else 5)
        k = rng.randint(1, 3 if n <= 4 else 2)
        R = rng.choice([fag.random_dfa, fag.random_connected_dfa])(rng, n, k)
        if rng.random() < 0.4 and k <= 2:
            R = fag.with_alphabet(R, rng.choice([('0', '1'), ('1', '0'), ('1', 'a')])[:k])
        yield {'kind': 'dfa', 'cls': 'random_dfa', 'ref': R, 'iso': h64(R)}
        for _ in range(6 if thorough else 3):
            names = fag.random_names(rng, n, avoid=('start', 'accept'))
            mp = dict(zip(R[0], names))
            yield {'kind': 'dfa', 'cls': 'random_dfa_renamed', 'ref': fag.rename(R, mp), 'iso': h64(R), 'back': {v: k_ for k_, v in mp.items()}}
    # wide alphabets with MANY parallel transitions between one pair of states (round 14, C06_l: a 'balanced sum' of the labels of
    # parallel edges that drops a subtree for 6, 7, 10..15 terms): 2-3 states, 6..16 symbols, most symbols of a state share a target
    letters = 'abcdefghijklmnop'
    for i in range(60 if thorough else 10):
        n = rng.randint(1, 3)
        k = (6, 7, 10, 11, 13, 15, 8, 9, 12, 16)[(i + rec.shard) % 10]
        Q = ['q%d' % j for j in range(n)]
        S = letters[:k]
        T = []
        for q in Q:
            main = rng.choice(Q)
            for a in S:
                T.append((q, a, main if rng.random() < 0.85 else rng.choice(Q)))
        Rw = fa.make(Q, S, T, Q[0], [q for q in Q if rng.random() < 0.5] or [Q[-1]])
        yield {'kind': 'dfa', 'cls': 'wide_alphabet_parallel_edges', 'ref': Rw, 'iso': h64(Rw)}
    # state names that collide with the helper states the construction introduces
    for names in (['start', 'q1', 'q2'], ['accept', 'start', 'x'], ['q0', 'accept', 'q2']):
        R = fag.random_connected_dfa(rng, 3, 2, names=names)
        yield {'kind': 'dfa', 'cls': 'reserved_names', 'ref': R, 'iso': h64(R)}


def run(rec, rng, tier):
    install(rec)
    import sys
    sys.setrecursionlimit(50000)
    try:
        rc = common.replay_case()
        if rc is not None:
            check_case(rec, rc)
            return
        for case in gen_cases(rec, rng, tier):
            check_case(rec, common.with_scramble(case))
    finally:
        if _LM is not None:
            rec.extra['anchored_line_coverage'] = _LM.coverage_report()
            _LM.stop()
