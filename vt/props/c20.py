"""C20 - the DFA isomorphism tests decide isomorphism of the reachable parts, symmetrically,
within a logical step budget."""
from vt.props import common
from vt.props.common import call, report_failure, selfcheck
from vt import adapt
from vt.rec import h64
from vt.ref import fa
from vt.gen import fag
from vt.mon import contracts, hooks

PROP = 'C20'
TITLE = 'DFA isomorphism test'
SHARDS = {'quick': 8, 'thorough': 32}
TIMEOUT = {'quick': 420, 'thorough': 3000}
REQUIRED = ['dfa_isomorphic1', 'dfa_isomorphic']
EXHAUSTIVE_NOTE = 'all ordered pairs (incl. self pairs) of total DFAs with <=2 states over a common alphabet of <=2 symbols'
RULE = ('cases are ordered pairs of DFAs over one alphabet: complete enumeration <=2 states/<=2 symbols; random pairs <=6 states of five kinds '
        '(renamed copy, renamed copy plus unreachable junk, equivalent but not isomorphic, same size different language, different reachable counts); '
        'each pair is asked in BOTH argument orders of BOTH functions under a logical budget of 1000*(|Q1||Q2||Sigma|+10) executed lines. '
        'distinct = canonical hash of the pair; non-trivial = both DFAs have >=2 reachable states')
ASSUMPTIONS = [
    'reference answer: equality of BFS canonical numberings of the reachable parts (cross-checked by brute-force bijection search for <=5 reachable states)',
    'termination is decided on executed lines (sys.monitoring LINE events inside the two functions), never on wall-clock time',
]

_REC = None
_LM = None
FUNCS = ('dfa_isomorphic1', 'dfa_isomorphic')


def mk_post(name):
    def post(D1, D2, result):
        rec = _REC
        rec.ev(name)
        R1, R2 = adapt.dfa_ref(D1), adapt.dfa_ref(D2)
        exp = fa.isomorphic_canonical(R1, R2)
        if result is not True and result is not False:
            rec.violation(name + ':not_boolean', '%s returned %r' % (name, result))
        elif result != exp:
            kind = 'false_positive' if result else 'false_negative'
            rec.violation('%s:%s' % (name, kind), '%s answers %s but the reachable parts are %sisomorphic' % (name, result, '' if exp else 'not '),
                          expected=exp, observed=result, D1=R1, D2=R2)
        return True
    post.__name__ = 'post_' + name
    return post


def install(rec):
    global _REC, _LM
    _REC = rec
    contracts.import_all()
    import gambatools.dfa_algorithms as da
    lm = hooks.LineMonitor()
    for name in FUNCS:
        lm.watch(getattr(da, name), name)

    def pre(args, kwargs):
        D1, D2 = args[0], args[1]
        lm.begin(1000 * (len(D1.Q) * len(D2.Q) * max(1, len(D1.Sigma)) + 10))
    for name in FUNCS:
        contracts.install('gambatools.dfa_algorithms', name, post=mk_post(name), pre=pre)
    lm.start()
    _LM = lm


def check_case(rec, case):
    import gambatools.dfa_algorithms as da
    R1, R2 = case['ref1'], case['ref2']
    n1, n2 = len(fa.reachable(R1)), len(fa.reachable(R2))
    rec.note_case(case, case['cls'], n1 >= 2 and n2 >= 2)
    exp = fa.isomorphic_canonical(R1, R2)
    if max(n1, n2) <= 5:
        selfcheck(rec, exp == fa.isomorphic_bruteforce(R1, R2), (R1, R2))
    rec.counters['expected_isomorphic' if exp else 'expected_not_isomorphic'] += 1
    for name in FUNCS:
        answers = []
        for (A, B) in ((R1, R2), (R2, R1)):
            scr = case.get('scr')
            D1, D2 = adapt.build_dfa(A, scramble=scr), adapt.build_dfa(B, scramble=None if scr is None else scr + 1)
            o = call(getattr(da, name), D1, D2)
            steps = _LM.end()
            rec.counters['lines_executed'] += steps
            if not o.ok:
                report_failure(rec, o, name, D1=A, D2=B)
                answers.append(None)
            else:
                answers.append(o.value)
        if None not in answers and answers[0] != answers[1]:
            rec.violation(name + ':asymmetric', '%s(D1,D2) = %s but %s(D2,D1) = %s' % (name, answers[0], name, answers[1]), D1=R1, D2=R2)
    if case.get('requery', len(R1[0]) >= 2 and len(R1[0]) + len(R2[0]) >= 5):
        # the same two OBJECTS asked, one of them changed in place, asked again (the contract judges every call against the
        # content of the operands at the time of the call)
        D1, D2 = adapt.build_dfa(R1, scramble=case.get('scr')), adapt.build_dfa(R2)
        for round_ in (0, 1, 2):
            for name in FUNCS:
                o = call(getattr(da, name), D1, D2)
                _LM.end()
                if not o.ok:
                    report_failure(rec, o, name, D1=adapt.dfa_ref(D1), D2=adapt.dfa_ref(D2), after_in_place_change=round_)
            if not common.mutate_in_place(D1 if round_ == 0 else D2, repr((R1, R2, round_))):
                break
            rec.counters['requery_after_in_place_change'] += 1


def junk(rng, R):
    """add unreachable states"""
    m = rng.randint(1, 3)
    U = ['zz%d' % i for i in range(m)]
    Q = list(R[0]) + U
    T = list(R[2]) + [(u, a, rng.choice(Q)) for u in U for a in R[1]]
    return fa.make(Q, R[1], T, R[3], list(R[4]) + [u for u in U if rng.random() < 0.5])


def split_state(rng, R):
    """equivalent DFA with one reachable state duplicated (not isomorphic when R is minimal)"""
    reach = sorted(fa.reachable(R))
    s = rng.choice(reach)
    s2 = s + '_dup'
    T = []
    inc = [(p, a, q) for (p, a, q) in R[2] if q == s]
    moved = set(rng.sample(inc, max(1, len(inc) // 2))) if inc else set()
    for t in R[2]:
        if t in moved:
            T.append((t[0], t[1], s2))
        else:
            T.append(t)
    T += [(s2, a, q) for (p, a, q) in R[2] if p == s]
    return fa.make(list(R[0]) + [s2], R[1], T, R[3], list(R[4]) + ([s2] if s in R[4] else []))


def gen_cases(rec, rng, tier):
    thorough = tier == 'thorough'
    small = {}
    for R in fag.enum_dfas(2, 2):
        small.setdefault(R[1], []).append(R)
    pairs = ((R1, R2) for S in sorted(small) for R1 in small[S] for R2 in small[S])
    for (R1, R2) in common.shard_slice(pairs, rec):
        yield {'cls': 'enum_pair', 'ref1': R1, 'ref2': fag.rename(R2, {q: 'r' + q[1:] for q in R2[0]})}
    # the witnesses from the design notes
    A = fa.make(['p', 'q'], 'a', [('p', 'a', 'q'), ('q', 'a', 'p')], 'p', ['p', 'q'])
    B = fa.make(['s'], 'a', [('s', 'a', 's')], 's', ['s'])
    yield {'cls': 'cycle_vs_loop', 'ref1': A, 'ref2': B}
    C = fa.make(['x', 'y'], 'ab', [('x', 'a', 'x'), ('x', 'b', 'y'), ('y', 'a', 'y'), ('y', 'b', 'x')], 'x', ['y'])
    yield {'cls': 'self_loop_at_q0', 'ref1': C, 'ref2': fag.rename(C, {'x': 'u', 'y': 'v'})}
    yield {'cls': 'sigma_empty', 'ref1': fa.make(['x'], '', [], 'x', ['x']), 'ref2': fa.make(['y', 'z'], '', [], 'y', ['y'])}
    yield {'cls': 'sigma_empty', 'ref1': fa.make(['x'], '', [], 'x', ['x']), 'ref2': fa.make(['y'], '', [], 'y', [])}
    # beyond the small scopes: mid-size and (few) large DFAs whose states are all reachable
    for n in ((9, 10, 11, 17, 33, 64, 130, 258, 300, 400) if thorough else ((9, 11, 33) if rec.shard % 2 else (10, 17, 300))):
        k = rng.choice([1, 2, 2, 4]) if n < 100 else 2
        R = fag.random_connected_dfa(rng, n, k, p_final=0.4)
        ren = fag.random_renaming(rng, R) if n <= 26 else fag.rename(R, {q: 'r%d' % i for i, q in enumerate(reversed(R[0]))})
        yield {'cls': 'large_renamed_copy', 'ref1': R, 'ref2': ren, 'requery': False}
        reach = sorted(fa.reachable(ren))
        s_ = rng.choice(reach)
        yield {'cls': 'large_one_final_flipped', 'ref1': R, 'ref2': (ren[0], ren[1], ren[2], ren[3], tuple(sorted(set(ren[4]) ^ {s_}))), 'requery': False}
    for _ in range(1200 if thorough else 80):
        k = rng.randint(1, 3)
        n = rng.randint(1, 6)
        R = fag.maybe_digits(rng, rng.choice([fag.random_dfa, fag.random_connected_dfa])(rng, n, k, p_final=rng.choice([0.3, 0.5])))
        ren = fag.random_renaming(rng, R)
        yield {'cls': 'renamed_copy', 'ref1': R, 'ref2': ren}
        yield {'cls': 'same_dfa', 'ref1': R, 'ref2': R}
        yield {'cls': 'renamed_plus_junk', 'ref1': R, 'ref2': junk(rng, ren)}
        yield {'cls': 'junk_both', 'ref1': junk(rng, R), 'ref2': junk(rng, ren)}
        yield {'cls': 'split_state', 'ref1': R, 'ref2': split_state(rng, ren)}
        # the minimised automaton (reference Moore quotient), equivalent, usually fewer states
        cls = fa.moore_classes(R, R[0])
        rep = {}
        for q in R[0]:
            rep.setdefault(cls[q], q)
        Qm = sorted(set(rep.values()))
        Tm = sorted({(rep[cls[p]], a, rep[cls[q]]) for (p, a, q) in R[2]})
        M = fa.make(Qm, R[1], Tm, rep[cls[R[3]]], sorted({rep[cls[q]] for q in R[4]}))
        yield {'cls': 'vs_minimised', 'ref1': R, 'ref2': fag.random_renaming(rng, M)}
        other = fag.with_alphabet(fag.random_dfa(rng, n, k, names=fag.random_names(rng, n, exotic=True)), R[1])
        yield {'cls': 'same_size_other_language', 'ref1': R, 'ref2': other}
        # flip acceptance of one reachable state / retarget one transition of the copy
        reach = sorted(fa.reachable(ren))
        s = rng.choice(reach)
        F2 = set(ren[4]) ^ {s}
        yield {'cls': 'one_final_flipped', 'ref1': R, 'ref2': (ren[0], ren[1], ren[2], ren[3], tuple(sorted(F2)))}
        T = list(ren[2])
        idx = [i for i, t in enumerate(T) if t[0] in reach]
        if idx:
            i = rng.choice(idx)
            T[i] = (T[i][0], T[i][1], rng.choice(ren[0]))
            yield {'cls': 'one_move_retargeted', 'ref1': R, 'ref2': fa.make(ren[0], ren[1], T, ren[3], ren[4])}


def run(rec, rng, tier):
    install(rec)
    try:
        rc = common.replay_case()
        if rc is not None:
            check_case(rec, rc)
            return
        for case in gen_cases(rec, rng, tier):
            check_case(rec, common.with_scramble(case))
    finally:
        if _LM is not None:
            rec.extra['anchored_line_coverage'] = _LM.coverage_report()
            rec.extra['max_lines_in_one_call'] = [_LM.max_steps_seen]
            _LM.stop()
