"""C17 - parsers build exactly what was written, reject single-fault corruptions, and never
return an object that violates its class invariants."""
import re
from vt.props import common
from vt.props.common import call, report_failure, selfcheck
from vt import adapt
from vt.ref import fa, pd, tmr, txt
from vt.gen import txg, fag

PROP = 'C17'
TITLE = 'parsers: exact construction and rejection of malformed text'
SHARDS = {'quick': 8, 'thorough': 32}
TIMEOUT = {'quick': 420, 'thorough': 3000}
REQUIRED = ['parse_dfa', 'parse_nfa', 'parse_pda', 'parse_tm', 'fault_rejected', 'class_invariants']
EXHAUSTIVE_NOTE = 'no complete sub-space: known automata are sampled and each is rendered in several random layouts; every applicable single-fault corruption of the plain layout is tried'
RULE = ('cases are (known automaton, layout): random DFA/NFA/PDA/TM inside the text-format domain rendered by an own renderer that varies line order, optional states / *_symbols / '
        'epsilon / blank / reject declarations (expected sets then derived from the transitions, defaults "ε if it occurs in a label else _" and "□ else _"), comments, blank lines, '
        'indentation, tabs, one label per line vs grouped; plus single-fault corruptions: second move for a (state, symbol) of a DFA, missing move, undeclared state / symbol against a '
        'declaration, no initial, two initial states, repeated keyword line, transition with < 3 tokens, PDA/TM label not matching the update syntax. '
        'distinct = (automaton, layout text); non-trivial = the automaton has >= 2 transitions')
ASSUMPTIONS = [
    'well-formedness and defaults follow doc/main.tex section Syntax together with the notebook texts (default epsilon "_"/"ε", default blank "_"/"□")',
    'any raised Exception counts as rejection (the notebooks catch Exception); returned objects are checked with independent class-invariant predicates',
]


def invariant_violation(kind, obj):
    """independent class-invariant predicates"""
    try:
        if kind == 'dfa':
            R = adapt.dfa_ref(obj)
            if not fa.well_formed(R):
                return 'undeclared state or symbol'
            if not fa.is_total_dfa(R):
                return 'not total / not deterministic'
        elif kind == 'nfa':
            R = adapt.nfa_ref(obj)
            if not fa.well_formed(R):
                return 'undeclared state or symbol'
            if obj.epsilon in obj.Sigma:
                return 'epsilon is an input symbol'
            if any(a != obj.epsilon and a not in obj.Sigma for (_, a) in obj.delta):
                return 'label outside the alphabet'
        elif kind == 'pda':
            R = adapt.pda_ref(obj)
            if not pd.well_formed(R):
                return 'undeclared state or symbol'
            if obj.epsilon in obj.Sigma or obj.epsilon in obj.Gamma:
                return 'epsilon is an input or stack symbol'
        elif kind == 'tm':
            R = adapt.tm_ref(obj)
            if not tmr.well_formed(R):
                return 'TM invariants (states, Sigma <= Gamma, blank in Gamma - Sigma, accept != reject)'
    except Exception as e:
        return 'object cannot be read: %r' % (e,)
    return None


def parser_for(kind):
    import gambatools.dfa_algorithms as da
    import gambatools.nfa_algorithms as na
    import gambatools.pda_algorithms as pa
    import gambatools.tm_algorithms as ta
    return {'dfa': da.parse_dfa, 'nfa': na.parse_nfa, 'pda': pa.parse_pda, 'tm': ta.parse_tm}[kind]


def extract(kind, obj):
    return {'dfa': adapt.dfa_ref, 'nfa': adapt.nfa_ref, 'pda': adapt.pda_ref, 'tm': adapt.tm_ref}[kind](obj)


FIELDS = {
    'dfa': ['states', 'input_symbols', 'transitions', 'initial_state', 'final_states'],
    'nfa': ['states', 'input_symbols', 'transitions', 'initial_state', 'final_states'],
    'pda': ['states', 'input_symbols', 'stack_symbols', 'transitions', 'initial_state', 'final_states'],
    'tm': ['states', 'input_symbols', 'tape_symbols', 'transitions', 'initial_state', 'accept_state', 'reject_state', 'blank'],
}


def render(kind, R, eps, opts, rng):
    if kind in ('dfa', 'nfa'):
        text, exp, exp_eps = txt.render_fa(R, kind, eps, opts, rng)
        return text, exp, exp_eps
    if kind == 'pda':
        return txt.render_pda(R, eps, opts, rng)
    text, exp = txt.render_tm(R, opts, rng)
    return text, exp, None


def check_wellformed(rec, kind, R, eps, opts, rng):
    text, exp, exp_eps = render(kind, R, eps, opts, rng)
    o = call(parser_for(kind), text)
    rec.ev('parse_' + kind)
    if not o.ok:
        report_failure(rec, o, 'parse_' + kind, what_prefix='well-formed description: ', text=text)
        return
    why = invariant_violation(kind, o.value)
    rec.ev('class_invariants')
    if why:
        rec.violation('parse_%s:invariant_violated' % kind, 'parse_%s returned an object that violates its class invariants: %s' % (kind, why), text=text)
        return
    got = extract(kind, o.value)
    for i, nm in enumerate(FIELDS[kind]):
        if exp[i] != got[i]:
            rec.violation('parse_%s:%s_differs' % (kind, nm), 'parse_%s built a different automaton: %s differs from what was written' % (kind, nm),
                          expected=exp[i], observed=got[i], text=text)
            return
    if kind in ('nfa', 'pda') and exp_eps is not None and o.value.epsilon != exp_eps:
        rec.violation('parse_%s:epsilon_differs' % kind, 'parse_%s chose a different epsilon symbol than documented' % kind, expected=exp_eps, observed=o.value.epsilon, text=text)


# ---------------------------------------------------------------- single-fault corruptions
def faults(kind, R, eps, rng):
    """yields (fault_name, corrupted_text) built from the plain layout"""
    plain = dict(txt.PLAIN)
    text, _, _ = render(kind, R, eps, plain, rng)
    lines = text.rstrip('\n').split('\n')
    kw = ('states', 'initial', 'final', 'input_symbols', 'epsilon', 'stack_symbols', 'tape_symbols', 'blank', 'accept', 'reject')
    heads = [l for l in lines if l.split(' ')[0] in kw]
    trans = [l for l in lines if l.split(' ')[0] not in kw]
    states = {'dfa': R[0], 'nfa': R[0], 'pda': R[0], 'tm': R[0]}[kind]

    def join(h, t):
        return '\n'.join(h + t) + '\n'
    # no initial state
    yield 'no_initial', join([l for l in heads if not l.startswith('initial')], trans)
    # two initial states (needs a second state)
    if len(states) >= 2:
        q0 = [l for l in heads if l.startswith('initial')][0].split()[1]
        other = [q for q in states if q != q0][0]
        yield 'two_initial_states', join([l if not l.startswith('initial') else l + ' ' + other for l in heads], trans)
    # repeated keyword line
    for k in [l.split(' ')[0] for l in heads]:
        if rng.random() < 0.5 or k in ('initial', 'states'):
            line = [l for l in heads if l.split(' ')[0] == k][0]
            pos = rng.randint(0, len(heads))
            yield 'repeated_keyword_' + k, join(heads[:pos] + [line] + heads[pos:], trans)
    # a single-valued declaration without a value (bare keyword line), or with two values
    single = {'dfa': (), 'nfa': ('epsilon',), 'pda': ('epsilon',), 'tm': ('blank', 'accept', 'reject')}[kind]
    for k in single:
        have = [l for l in heads if l.split(' ')[0] == k]
        if have:
            yield 'keyword_without_value_' + k, join([k if l.split(' ')[0] == k else l for l in heads], trans)
            yield 'keyword_with_two_values_' + k, join([l + ' ' + l.split(' ')[1] + 'x' if l.split(' ')[0] == k and len(l.split(' ')) == 2 else l for l in heads], trans)
        else:
            pos = rng.randint(0, len(heads))
            yield 'keyword_without_value_' + k, join(heads[:pos] + [k] + heads[pos:], trans)
    # undeclared state used in a transition / as final / as initial
    ghost = 'ghost_state'
    if trans:
        i = rng.randrange(len(trans))
        w = trans[i].split(' ')
        w[rng.choice([0, 1])] = ghost
        yield 'undeclared_state_in_transition', join(heads, trans[:i] + [' '.join(w)] + trans[i + 1:])
    if kind != 'tm':
        yield 'undeclared_final_state', join([l + ' ' + ghost if l.startswith('final') else l for l in heads], trans)
    yield 'undeclared_initial_state', join(['initial ' + ghost if l.startswith('initial') else l for l in heads], trans)
    # transition with fewer than three tokens
    if trans:
        i = rng.randrange(len(trans))
        w = trans[i].split(' ')
        yield 'incomplete_transition', join(heads, trans[:i] + [' '.join(w[:2])] + trans[i + 1:])
    a, b = states[0], states[-1]
    yield 'incomplete_transition_extra_line', join(heads, trans + ['%s %s' % (a, b)])
    if kind == 'dfa':
        S = R[1]
        if trans and S:
            # second transition for an existing (state, symbol)
            (p, s, q) = R[2][rng.randrange(len(R[2]))]
            tgt = [x for x in states if x != q]
            if tgt:
                yield 'nondeterministic', join(heads, trans + ['%s %s %s' % (p, tgt[0], s)])
            # missing transition: drop one label
            i = rng.randrange(len(trans))
            w = trans[i].split(' ')
            if len(w) > 3:
                w2 = w[:-1]
                yield 'missing_transition', join(heads, trans[:i] + [' '.join(w2)] + trans[i + 1:])
            else:
                yield 'missing_transition', join(heads, trans[:i] + trans[i + 1:])
            # undeclared symbol
            if 'Q' not in S:
                yield 'undeclared_symbol', join(heads, trans + ['%s %s %s' % (a, b, 'Q')])
    if kind == 'nfa':
        if 'Q' not in R[1] and eps != 'Q':
            yield 'undeclared_symbol', join(heads, trans + ['%s %s Q' % (a, b)])
    if kind in ('dfa', 'nfa', 'pda'):
        # a declared input symbol that is not a symbol (punctuation inside)
        yield 'invalid_symbol_declared', join([(l + ' ' + rng.choice(['b-c', 'a,b', 'x.y', 'a+'])) if l.startswith('input_symbols') else l for l in heads], trans)
    if kind == 'nfa':
        # the epsilon symbol listed among the declared input symbols
        yield 'epsilon_declared_as_input_symbol', join([(l + ' ' + eps) if l.startswith('input_symbols') else l for l in heads], trans)
    if kind == 'pda':
        yield 'epsilon_declared_as_input_symbol', join([(l + ' ' + eps) if l.startswith('input_symbols') else l for l in heads], trans)
        yield 'epsilon_declared_as_stack_symbol', join([(l + ' ' + eps) if l.startswith('stack_symbols') else l for l in heads], trans)
        if 'Q' not in R[1] and eps != 'Q':
            yield 'undeclared_input_symbol', join(heads, trans + ['%s %s Q,%s%s' % (a, b, eps, eps)])
        if 'Q' not in R[2] and eps != 'Q':
            yield 'undeclared_stack_symbol', join(heads, trans + ['%s %s %s,Q%s' % (a, b, eps, eps)])
            yield 'undeclared_stack_symbol', join(heads, trans + ['%s %s %s,%sQ' % (a, b, eps, eps)])
        for bad in ('%s,%s' % (eps, eps), '%s%s%s' % (eps, eps, eps), '%s,%s%s%s' % (eps, eps, eps, eps), ',%s%s' % (eps, eps), '%s;%s%s' % (eps, eps, eps)):
            yield 'ill_formed_pda_label', join(heads, trans + ['%s %s %s' % (a, b, bad)])
    if kind == 'tm':
        bl = R[7]
        if 'Q' not in R[2]:
            yield 'undeclared_tape_symbol', join(heads, trans + ['%s %s Q%s,R' % (R[4], b, bl)])
        for bad in ('%s%s,X' % (bl, bl), '%s,R' % bl, '%s%s%s,R' % (bl, bl, bl), '%s%sR' % (bl, bl), '%s%s,' % (bl, bl), '%s%s,RL' % (bl, bl)):
            yield 'ill_formed_tm_label', join(heads, trans + ['%s %s %s' % (a, b, bad)])
        # the tape_symbols declaration omits the blank although a transition reads or writes it
        if any(d[1] == bl or d[3] == bl for d in R[3]):
            yield 'tape_symbols_omit_used_blank', join([('tape_symbols ' + ' '.join(x for x in R[2] if x != bl)).rstrip() if l.startswith('tape_symbols') else l for l in heads], trans)
        # accept and reject the same state
        yield 'accept_equals_reject', join([('reject ' + R[5]) if l.startswith('reject') else l for l in heads], trans)


def check_case(rec, case):
    import random
    kind = case['kind']
    R = case['ref']
    eps = case.get('eps')
    rng = random.Random(case['lseed'])
    ntrans = len(R[3]) if kind in ('pda', 'tm') else len(R[2])
    rec.note_case(case, case['cls'], ntrans >= 2)
    check_wellformed(rec, kind, R, eps, dict(txt.PLAIN), rng)
    for _ in range(case.get('layouts', 3)):
        check_wellformed(rec, kind, R, eps, txt.random_opts(rng), rng)
    if case.get('faults', True):
        for item in faults(kind, R, eps, rng):
            if item[0] == 'skip' or item[1] is None:
                continue
            name, text = item
            o = call(parser_for(kind), text)
            rec.ev('fault_rejected')
            if o.kind == 'exc':
                rec.counters['rejected:' + name] += 1
                continue
            if not o.ok:
                report_failure(rec, o, 'parse_' + kind, text=text)
                continue
            why = invariant_violation(kind, o.value)
            if why:
                rec.violation('parse_%s:invariant_violated' % kind, 'parse_%s returned an object that violates its class invariants (%s) for a corrupted description' % (kind, why), fault=name, text=text)
            else:
                rec.violation('parse_%s:accepts_%s' % (kind, name), 'parse_%s accepted a description with the fault "%s" instead of rejecting it' % (kind, name), fault=name, text=text)

    # malformed state labels under each state_regex the library ships (round 14, C17_n: label regexes compiled as '^' + regex + '$' and
    # used with .match(), which lets an alternation escape its anchors).  'Malformed' is decided here, independently: the label does not
    # match the regex as a whole.
    if case.get('faults', True) and kind in ('dfa', 'nfa') and R[0] and re.fullmatch(r'\w+', R[0][0]) and R[0][0] not in R[1]:
        import gambatools.automaton_algorithms as aa
        text, _, _ = render(kind, R, eps, dict(txt.PLAIN), rng)
        q = R[0][0]
        for rname in ('default', 'state_set_regex', 'state_product_regex', 'state_word_or_set_regex'):
            regex = r'\w+' if rname == 'default' else getattr(aa, rname)()
            for bad in (q + ',x}', q + '}', q + '{x}', q + '-x', '{' + q, '(' + q + ',x', q + ',x)', q + '!'):
                if re.fullmatch(regex, bad):
                    continue
                corrupted = '\n'.join(' '.join(bad if t == q else t for t in line.split(' ')) for line in text.split('\n'))
                o = call(parser_for(kind), corrupted, state_regex=regex)
                rec.ev('fault_rejected')
                if o.kind == 'exc':
                    rec.counters['rejected:malformed_state_label/' + rname] += 1
                elif o.ok:
                    rec.violation('parse_%s:accepts_malformed_state_label' % kind, 'parse_%s(state_regex=%s) accepted a description whose state label does not match the regex'
                                  % (kind, rname), label=bad, state_regex=regex, text=corrupted)
                    break


def gen_cases(rec, rng, tier):
    thorough = tier == 'thorough'
    for _ in range(1200 if thorough else 90):
        R = txg.dfa(rng)
        yield {'kind': 'dfa', 'cls': 'random_dfa', 'ref': R, 'lseed': rng.randrange(10 ** 9)}
        R, eps = txg.nfa(rng)
        yield {'kind': 'nfa', 'cls': 'random_nfa', 'ref': R, 'eps': eps, 'lseed': rng.randrange(10 ** 9)}
        RP, eps = txg.pda(rng)
        yield {'kind': 'pda', 'cls': 'random_pda', 'ref': RP, 'eps': eps, 'lseed': rng.randrange(10 ** 9)}
        yield {'kind': 'tm', 'cls': 'random_tm', 'ref': txg.tm(rng), 'lseed': rng.randrange(10 ** 9)}
    for (cls, R) in fag.hostile_nfas(rng):
        yield {'kind': 'nfa', 'cls': 'nfa_' + cls, 'ref': R, 'eps': rng.choice(['_', 'ε']), 'lseed': rng.randrange(10 ** 9)}
    # a declared epsilon symbol of several characters (symbols are \\w+ words in the NFA format) whose characters are input symbols
    for _ in range(150 if thorough else 20):
        eps = rng.choice(['eps', 'ee', 'e1', 'EPS', 'lambda'])
        n = rng.randint(1, 4)
        S = rng.sample(sorted(set(eps.lower()) | set('ab')), rng.randint(1, 3))
        Q = txg.names(rng, n)
        T = [(p, a, q) for p in Q for a in list(S) + [None] for q in Q if rng.random() < 0.3]
        R = fa.make(Q, S, T, rng.choice(Q), [q for q in Q if rng.random() < 0.4])
        yield {'kind': 'nfa', 'cls': 'nfa_multi_character_epsilon', 'ref': R, 'eps': eps, 'lseed': rng.randrange(10 ** 9)}
    for _ in range(40 if thorough else 6):
        yield {'kind': 'dfa', 'cls': 'many_labels_on_one_edge', 'ref': txg.dfa_wide(rng), 'lseed': rng.randrange(10 ** 9)}
        R, eps = txg.nfa_wide(rng)
        yield {'kind': 'nfa', 'cls': 'many_labels_on_one_edge', 'ref': R, 'eps': eps, 'lseed': rng.randrange(10 ** 9)}
        RP, eps = txg.pda_wide(rng)
        yield {'kind': 'pda', 'cls': 'many_labels_on_one_edge', 'ref': RP, 'eps': eps, 'lseed': rng.randrange(10 ** 9)}
        yield {'kind': 'tm', 'cls': 'many_labels_on_one_edge', 'ref': txg.tm_wide(rng), 'lseed': rng.randrange(10 ** 9)}
    for (cls, R) in fag.hostile_dfas(rng):
        yield {'kind': 'dfa', 'cls': 'dfa_' + cls, 'ref': R, 'lseed': rng.randrange(10 ** 9)}


def run(rec, rng, tier):
    rc = common.replay_case()
    if rc is not None:
        check_case(rec, rc)
        return
    for case in gen_cases(rec, rng, tier):
        check_case(rec, case)
