"""C15 - simulation traces and derivations are genuine witnesses and are always produced
(bounded progress in executed lines + backpointer-cycle detection)."""
import inspect
import os
import tempfile

from vt.props import common
from vt.props.common import call, report_failure, selfcheck
from vt import adapt, env
from vt.rec import h64
from vt.ref import fa, pd, cf
from vt.gen import fag, pdag, cfgg
from vt.mon import contracts, hooks

PROP = 'C15'
TITLE = 'simulation traces and derivations'
SHARDS = {'quick': 16, 'thorough': 64}
TIMEOUT = {'quick': 420, 'thorough': 3600}
REQUIRED = ['dfa_simulate_word', 'nfa_simulate_word', 'pda_simulate_word', 'cfg_derive_word']          # the make_path probe is auxiliary (nested function of the library)
EXHAUSTIVE_NOTE = 'all NFAs with <=2 states over <=1 symbol plus epsilon and all total DFAs <=2 states/<=2 symbols, each with all words up to the bound; everything else is sampled'
RULE = ('cases are (automaton or CNF grammar, all words up to the bound): enumerated tiny automata, seeded random DFAs/NFAs/PDAs, epsilon self-loops and epsilon cycles of length 2..4 '
        '(into and out of accepting states), PDAs with stack-growing/keeping/shrinking epsilon loops under closure limits 5..50, random CNF grammars with leftmost/rightmost/any '
        'derivations, the cfg_*_derivation notebook commands; every shard is an interpreter with its own PYTHONHASHSEED (the known hang depends on set order). Accepted words must '
        'give a run that passes an independent step validator; rejected words must give None (NFA, PDA). Termination is restated as bounded progress: a budget of '
        '2000*(|Q|+|delta|+|w|+limit)^2 executed lines inside the simulation functions, plus a probe in make_path that proves non-termination when the path outgrows the backpointer map. '
        'distinct = (object, settings); non-trivial = at least one word is accepted and one rejected')
ASSUMPTIONS = [
    'step validators written from the definitions (first row initial configuration, one move per row consuming nothing or the FIRST unread symbol, stack updated per move, last row accepting with nothing unread)',
    'termination decided on executed lines (sys.monitoring LINE events), never on wall-clock time',
    'for PDAs a run is demanded when the library\'s own acceptance test says True; None is demanded when the exact oracle says no accepting computation exists',
]

_REC = None
_LM = None
_CUR = {}


# ---------------------------------------------------------------- validators
def check_fa_run(R, w, rows, need_accept=True):
    if not isinstance(rows, list) or not rows:
        return 'no rows'
    m = fa.succ_map(R)
    try:
        q, rest = rows[0]
    except Exception:
        return 'malformed row'
    if q != R[3] or rest != w:
        return 'first row is not (initial state, whole word)'
    for k in range(len(rows) - 1):
        try:
            (p, r1), (q, r2) = rows[k], rows[k + 1]
        except Exception:
            return 'malformed row'
        if r1 == r2 and q in m.get((p, None), ()):
            continue
        if r1 and r1[1:] == r2 and q in m.get((p, r1[0]), ()):
            continue
        return 'row %d -> %d is not a move of the automaton consuming nothing or the first unread symbol' % (k, k + 1)
    q, rest = rows[-1]
    if rest != '':
        return 'last row has unread input'
    if need_accept and q not in set(R[4]):
        return 'last row is not accepting'
    return None


def check_derivation(RG, w, der, kind):
    rules = {}
    for (A, rhs) in RG[2]:
        rules.setdefault(A, set()).add(tuple(x for (_, x) in rhs))
    V = set(RG[0])
    if not isinstance(der, list) or not der:
        return 'no derivation'
    der = [[str(x) for x in el] for el in der]
    if der[0] != [RG[3]]:
        return 'the derivation does not start with the start variable'
    for k in range(len(der) - 1):
        a, b = der[k], der[k + 1]
        pos = [i for i, x in enumerate(a) if x in V]
        if not pos:
            return 'step %d rewrites a sentential form without variables' % k
        cand = pos if kind == 'any' else ([pos[0]] if kind == 'leftmost' else [pos[-1]])
        ok = False
        for i in cand:
            for rhs in rules.get(a[i], ()):
                if a[:i] + list(rhs) + a[i + 1:] == b:
                    ok = True
        if not ok:
            return 'step %d does not rewrite the %s variable by a rule of the grammar' % (k, kind if kind != 'any' else 'some')
    if der[-1] != list(w) or any(x in V for x in der[-1]):
        return 'the derivation does not end with the word'
    return None


# ---------------------------------------------------------------- hooks
def install(rec):
    global _REC, _LM
    _REC = rec
    contracts.import_all()
    import gambatools.nfa_algorithms as na
    import gambatools.pda_algorithms as pa
    import gambatools.dfa_algorithms as da
    lm = hooks.LineMonitor()
    for (mod, nm) in ((na, 'nfa_find_epsilon_path'), (pa, 'pda_find_epsilon_path'), (na, 'nfa_simulate_word'), (pa, 'pda_simulate_word'),
                      (da, 'dfa_simulate_word'), (na, 'nfa_find_transition'), (pa, 'pda_find_transition')):
        if hasattr(mod, nm):
            lm.watch(getattr(mod, nm), nm)
        else:
            rec.counters['hook_target_absent:' + nm] += 1

    def probe_make_path(frame, line):
        loc = frame.f_locals
        rec.monitors['make_path_probe'] += 1
        path = loc.get('path')
        bp = loc.get('backpointers')      # free variable of the nested function, visible in f_locals
        if path is not None and bp is not None and len(path) > len(bp) + 2:
            _CUR['cycle'] = True
            raise hooks.BudgetExceeded('make_path: the path (%d) outgrew the backpointer map (%d entries): backpointer cycle, the loop cannot terminate' % (len(path), len(bp)))
    for (mod, nm) in ((na, 'nfa_find_epsilon_path'), (pa, 'pda_find_epsilon_path')):
        if hasattr(mod, nm):
            lm.probe_all(getattr(mod, nm), probe_make_path, nested='make_path')
    lm.start()
    _LM = lm


def budget_for(size, w, limit):
    return 2000 * (size + len(w) + limit) ** 2


def sim(rec, fn, name, obj, w, size, limit, exploding=False):
    _CUR['cycle'] = False
    _CUR['exploding'] = exploding
    _LM.begin(budget_for(size, w, limit))
    o = call(fn, obj, w)
    steps = _LM.end()
    rec.counters['lines_executed'] += steps
    rec.ev(name)
    if o.kind == 'budget' and not _CUR.get('cycle') and _CUR.get('exploding'):
        # a PDA whose epsilon moves push in several ways: the search for an epsilon path is exponential in the depth of the target
        # (millions of lines, still finite); a line budget cannot tell that from non-termination - only the backpointer-cycle
        # probe can, and it did not fire
        rec.inconc('line budget exceeded on a PDA with an exploding epsilon closure (no cycle proof): not decided')
        return None
    if o.kind == 'budget':
        key = 'no_answer:backpointer_cycle@%s' % name if _CUR.get('cycle') else 'no_answer:step_budget@%s' % name
        rec.violation(key, '%s does not terminate: %s' % (name, o.exc), word=w)
        return None
    if not o.ok:
        report_failure(rec, o, name, word=w)
        return None
    return o


def _fa_round(rec, kind, X, R, words, L, size, da, na):
    if kind == 'dfa':
        for w in words:
            o = sim(rec, da.dfa_simulate_word, 'dfa_simulate_word', X, w, size, 0)
            if o is None:
                break
            if w in L:
                why = check_fa_run(R, w, o.value)
                if why:
                    rec.violation('dfa_simulate_word:not_a_run', 'the DFA trace for an accepted word is not a genuine accepting run: ' + why, word=w, rows=o.value[:6], automaton=R)
                    break
    else:
        for w in words:
            o = sim(rec, na.nfa_simulate_word, 'nfa_simulate_word', X, w, size, 0)
            if o is None:
                break
            if w in L:
                why = 'returned None' if o.value is None else check_fa_run(R, w, o.value)
                if why:
                    rec.violation('nfa_simulate_word:not_a_run', 'the NFA trace for an accepted word is not a genuine accepting run: ' + why, word=w, rows=(o.value or [])[:8], automaton=R)
                    break
            elif o.value is not None:
                rec.violation('nfa_simulate_word:run_for_rejected_word', 'nfa_simulate_word returned a run for a rejected word', word=w, rows=o.value[:8], automaton=R)
                break


def reachable_configurations(RP, n, cap):
    """number of distinct configurations (state, stack) reachable from the initial configuration reading at most n letters
    (any letters); stops counting at cap (returns cap)"""
    from collections import deque
    by = {}
    for m in RP[3]:
        by.setdefault(m[0], []).append(m)
    start = (RP[4], (), 0)
    best = {(RP[4], ()): 0}
    dq = deque([start])
    while dq:
        (p, st, k) = dq.popleft()
        for (_, a, u, q, v) in by.get(p, ()):
            k1 = k if a is None else k + 1
            if k1 > n:
                continue
            s1 = st
            if u is not None:
                if not s1 or s1[-1] != u:
                    continue
                s1 = s1[:-1]
            if v is not None:
                s1 = s1 + (v,)
            c = (q, s1)
            if c not in best or best[c] > k1:
                new = c not in best
                best[c] = k1
                if new and len(best) >= cap:
                    return cap
                dq.append((q, s1, k1))
    return len(best)


def check_case(rec, case):
    import gambatools.dfa_algorithms as da
    import gambatools.nfa_algorithms as na
    import gambatools.pda_algorithms as pa
    import gambatools.cfg_algorithms as ca
    from gambatools.global_settings import GambaTools
    kind = case['kind']
    R = case['ref']
    n = case['n']
    if kind in ('dfa', 'nfa'):
        words = list(case['words']) if case.get('words') else list(fa.words_upto(R[1], n))
        L = fa.language_upto(R, n)
        rec.note_case(case, case['cls'], 0 < len(L) < len(words) or bool(case.get('words')))
        size = len(R[0]) + len(R[2])
        # the same object asked again after an in-place change (round 1): the run must be a run of the automaton as it is NOW
        X = adapt.build_dfa(R, scramble=case.get('scr')) if kind == 'dfa' else adapt.build_nfa(R, case.get('eps', ''), case.get('container', 'defaultdict_set'), scramble=case.get('scr'))
        for round_ in (0, 1):
            if round_ == 1:
                if len(R[0]) < 2 or case.get('requery') is False or not common.mutate_in_place(X, repr(R)):
                    break
                R = adapt.dfa_ref(X) if kind == 'dfa' else adapt.nfa_ref(X)
                words = list(fa.words_upto(R[1], min(n, 4)))
                L = fa.language_upto(R, min(n, 4))
                size = len(R[0]) + len(R[2])
                rec.counters['requery_after_in_place_change'] += 1
            _fa_round(rec, kind, X, R, words, L, size, da, na)
    elif kind == 'pda':
        words = list(fa.words_upto(R[1], n))
        exact = {w for w in words if pd.accepts(R, w)}
        rec.note_case(case, case['cls'], 0 < len(exact) < len(words))
        P = adapt.build_pda(R, case.get('eps', ''), scramble=case.get('scr'))
        size = len(R[0]) + len(R[3])
        # every epsilon closure the library computes for a word of at most n letters is a subset of the configurations reachable
        # with at most n letters: if there are fewer of those than the limit, no closure can be cut off
        closures_small = reachable_configurations(R, n, case['limit']) < case['limit']
        exploding = not all(pd.true_eps_closure(R, [(q, ())], 60)[1] for q in R[0])
        old = GambaTools.pda_epsilon_closure_max_iterations
        try:
            GambaTools.pda_epsilon_closure_max_iterations = case['limit']
            for w in words:
                oa = call(pa.pda_accepts_word, P, w)
                if not oa.ok:
                    rec.inconc('pda_accepts_word failed (judged under C09)')
                    break
                o = sim(rec, pa.pda_simulate_word, 'pda_simulate_word', P, w, size, case['limit'], exploding=exploding)
                if o is None:
                    break
                if oa.value or (w in exact and closures_small):
                    # a run is demanded when the library's own acceptance test says True, and also when the exact oracle accepts
                    # and NO closure of this automaton can come near the limit (epsilon moves acyclic, few epsilon paths)
                    why = 'returned None' if o.value is None else pd.check_run(R, w, [(q, r, list(s)) for (q, r, s) in o.value])
                    if why:
                        rec.violation('pda_simulate_word:not_a_run', 'the PDA trace for an accepted word is not a genuine accepting computation: ' + why, word=w, rows=(o.value or [])[:8], limit=case['limit'])
                        break
                elif w not in exact and o.value is not None:
                    rec.violation('pda_simulate_word:run_for_rejected_word', 'pda_simulate_word returned a run for a word without accepting computation', word=w, rows=o.value[:8])
                    break
                elif o.value is not None:
                    # not demanded, but a returned run must still be genuine
                    why = pd.check_run(R, w, [(q, r, list(s)) for (q, r, s) in o.value])
                    if why:
                        rec.violation('pda_simulate_word:not_a_run', 'pda_simulate_word returned rows that are not a computation: ' + why, word=w, rows=o.value[:8])
                        break
        finally:
            GambaTools.pda_epsilon_closure_max_iterations = old
    elif kind == 'cfg':
        words = [w for w in fa.words_upto(R[1], n) if w]
        L = cf.language_upto(R, n)
        rec.note_case(case, case['cls'], 0 < len(L - {''}) < len(words))
        G = adapt.build_cfg(R)
        for w in words:
            if w not in L:
                continue
            for dt in ('leftmost', 'rightmost', 'any'):
                o = call(ca.cfg_derive_word, G, w, dt)
                rec.ev('cfg_derive_word')
                if not o.ok:
                    report_failure(rec, o, 'cfg_derive_word', word=w, derivation_type=dt, grammar=cf.show(R))
                    return
                why = check_derivation(R, w, o.value, dt)
                if why:
                    rec.violation('cfg_derive_word:not_a_derivation:' + dt, 'the %s derivation returned is not genuine: %s' % (dt, why), word=w, grammar=cf.show(R),
                                  derivation=[''.join(map(str, e)) for e in o.value][:10])
                    return
        if case.get('notebook') and all(len(v) == 1 for v in R[0]):
            mk = env.make_notebook_module()
            txt = render_simple(R)
            fd, path = tempfile.mkstemp(suffix='.cfg', prefix='vt_c15_')
            try:
                with os.fdopen(fd, 'w', encoding='utf8') as f:
                    f.write(txt)
                for w in sorted(L - {''}, key=lambda w: (len(w), w))[:4]:
                    for dt in ('leftmost', 'rightmost'):
                        o = call(mk.apply_command, 'cfg_%s_derivation' % dt, [path, w])
                        rec.ev('notebook_derivation_command')
                        if not o.ok:
                            report_failure(rec, o, 'apply_command(cfg_%s_derivation)' % dt, word=w)
                            continue
                        der = [list(x.strip()) for x in o.value.split('=>')]
                        # the parsed grammar's start variable / rule order is what the command used
                        from gambatools.cfg_algorithms import parse_simple_cfg
                        RG2 = adapt.cfg_ref(parse_simple_cfg(txt))
                        if not cf.is_cnf(RG2):
                            continue
                        why = check_derivation(RG2, w, der, dt)
                        if why:
                            rec.violation('notebook_derivation_command:not_a_derivation:' + dt, 'the derivation text produced by the notebook command is not genuine: ' + why,
                                          word=w, text=o.value, grammar=txt)
            finally:
                os.unlink(path)


def render_simple(RG):
    """simple text format; the start variable's rules first"""
    by = {}
    order = []
    for (A, rhs) in RG[2]:
        if A not in by:
            order.append(A)
        by.setdefault(A, []).append(''.join(x for (_, x) in rhs) if rhs else 'ε')
    if RG[3] in order:
        order.remove(RG[3])
        order.insert(0, RG[3])
    return '\n'.join('%s -> %s' % (A, ' | '.join(by[A])) for A in order) + '\n'


def gen_cases(rec, rng, tier):
    thorough = tier == 'thorough'
    for R in common.shard_slice(fag.enum_dfas(2, 2), rec):
        yield {'kind': 'dfa', 'cls': 'enum_dfa', 'ref': R, 'n': 4}
    for i, R in enumerate(common.shard_slice(fag.enum_nfas(2, 1), rec)):
        yield {'kind': 'nfa', 'cls': 'enum_nfa', 'ref': R, 'n': 3, 'eps': ('', '_')[i % 2], 'container': adapt.NFA_KINDS[i % 5]}
    # schedule-sensitive families: EVERY shard (own hash seed) runs them, plus random renamings
    for (cls, R) in fag.hostile_nfas(rng):
        yield {'kind': 'nfa', 'cls': cls, 'ref': R, 'n': 4, 'eps': 'ε', 'container': 'defaultdict_set'}
        if cls.startswith('eps_'):
            for _ in range(2):
                yield {'kind': 'nfa', 'cls': cls + '_renamed', 'ref': fag.random_renaming(rng, R), 'n': 4, 'eps': '', 'container': rng.choice(adapt.NFA_KINDS)}
    # very long epsilon runs (an epsilon path longer than the interpreter's default recursion limit) and larger automata
    if rec.shard % 4 == 0:
        for k in (1100,):
            yield {'kind': 'nfa', 'cls': 'eps_chain_beyond_recursion_limit', 'ref': fag.eps_chain(k, accept_end=True), 'n': 1, 'words': ['a'], 'requery': False, 'eps': '', 'container': 'defaultdict_set'}
    if rec.shard % 4 == 1:
        for nq in (9, 12, 17, 33):
            yield {'kind': 'dfa', 'cls': 'large_dfa', 'ref': fag.random_connected_dfa(rng, nq, 2, p_final=0.3), 'n': 5}
            yield {'kind': 'nfa', 'cls': 'large_nfa', 'ref': fag.random_nfa(rng, nq, 2, eps_density=0.1, density=0.1), 'n': 4, 'eps': '', 'container': 'defaultdict_set'}
    # the 5-state witness shape from the design notes: x <-> y epsilon cycles reachable from the start
    Rw = fa.make(['s', 'x', 'y', 'z', 'f'], 'a', [('s', None, 'x'), ('x', None, 'y'), ('y', None, 'x'), ('y', None, 'z'), ('z', None, 'y'), ('z', None, 'f'), ('f', 'a', 'f'), ('x', 'a', 'z')], 's', ['f'])
    yield {'kind': 'nfa', 'cls': 'eps_two_cycles', 'ref': Rw, 'n': 3, 'eps': ''}
    for _ in range(4):
        yield {'kind': 'nfa', 'cls': 'eps_two_cycles_renamed', 'ref': fag.random_renaming(rng, Rw), 'n': 3, 'eps': ''}
    for _ in range(200 if thorough else 18):
        nq, k = rng.randint(1, 6), rng.randint(1, 2)
        yield {'kind': 'dfa', 'cls': 'random_dfa', 'ref': fag.random_dfa(rng, nq, k, names=rng.choice([None, fag.random_names(rng, nq, exotic=True)])), 'n': 5 if k == 2 else 8}
        R = fag.random_nfa(rng, nq, k, eps_density=rng.choice([0.3, 0.8, 1.5]), names=rng.choice([None, fag.random_names(rng, nq, exotic=True)]))
        yield {'kind': 'nfa', 'cls': 'random_nfa', 'ref': R, 'n': 4 if k == 2 else 6, 'eps': rng.choice(['', '_', 'ε']), 'container': rng.choice(adapt.NFA_KINDS)}
    fam = list(pdag.hostile_pdas())
    for i, (cls, RP) in enumerate(fam):
        if RP[1] and i % 2 == rec.shard % 2:
            yield {'kind': 'pda', 'cls': 'pda_' + cls, 'ref': RP, 'n': 4, 'limit': (5, 12, 50)[(i + rec.shard) % 3], 'eps': ('', '_')[i % 2]}
    for i, (cls, RPa) in enumerate(pdag.concatenation_ambiguous_stacks()):
        if i % 4 == rec.shard % 4:
            yield {'kind': 'pda', 'cls': 'pda_' + cls, 'ref': RPa, 'n': 3, 'limit': 30, 'eps': ''}
    # closure limit RAISED above the default of 1000 on a large finite closure (round 14, C15_l: a path search whose bound was frozen at
    # import time): the accepting run needs the configuration that a breadth-first closure finds last, after about 2^(k+1) expansions
    for j, (k, lim) in enumerate(((10, 5000), (10, 100000))):
        if rec.shard % 8 == 3 + j:
            yield {'kind': 'pda', 'cls': 'pda_large_finite_closure_limit_above_default', 'ref': pdag.guess_bits(k), 'n': 2, 'limit': lim, 'eps': ('', '_')[j]}
    if rec.shard % 8 == 2:
        for (name, RP, eps) in pdag.shipped_pdas(env.REPO):
            yield {'kind': 'pda', 'cls': 'shipped_' + name, 'ref': RP, 'n': 4, 'limit': 50, 'eps': eps}
    for _ in range(150 if thorough else 14):
        RP = pdag.random_pda(rng, rng.randint(1, 4), rng.randint(1, 2), rng.randint(0, 3), rng.randint(1, 8), p_eps=rng.choice([0.3, 0.5, 0.7]))
        yield {'kind': 'pda', 'cls': 'random_pda', 'ref': RP, 'n': 4 if len(RP[1]) == 2 else 5, 'limit': rng.choice([5, 12, 30, 50]), 'eps': rng.choice(['', '_'])}
        RPx = pdag.exotic_names(rng, RP)
        if RPx is not None and rng.random() < 0.5:
            yield {'kind': 'pda', 'cls': 'pda_exotic_state_names', 'ref': RPx, 'n': 4 if len(RP[1]) == 2 else 5, 'limit': rng.choice([12, 30]), 'eps': ''}
    for _ in range(300 if thorough else 25):
        RG = cfgg.random_cnf(rng, rng.randint(1, 5), rng.randint(0, 7), nt=rng.randint(1, 2))
        yield {'kind': 'cfg', 'cls': 'random_cnf', 'ref': RG, 'n': 5 if len(RG[1]) == 2 else 7, 'notebook': True}
        RG = cfgg.redundant_cnf(rng)
        yield {'kind': 'cfg', 'cls': 'redundant_cnf', 'ref': RG, 'n': 6 if len(RG[1]) == 2 else 8, 'notebook': rng.random() < 0.3}
    if rec.shard % 8 == 3:
        from vt.props.c07 import shipped
        for (name, RG) in shipped():
            if cf.is_cnf(RG):
                yield {'kind': 'cfg', 'cls': 'shipped_' + name, 'ref': RG, 'n': 5, 'notebook': True}


def run(rec, rng, tier):
    install(rec)
    try:
        rc = common.replay_case()
        if rc is not None:
            check_case(rec, rc)
            return
        for case in gen_cases(rec, rng, tier):
            check_case(rec, common.with_scramble(case))
    finally:
        if _LM is not None:
            rec.extra['anchored_line_coverage'] = _LM.coverage_report()
            rec.extra['max_lines_in_one_call'] = [_LM.max_steps_seen]
            _LM.stop()
