"""Helpers shared by the property drivers."""
import contextlib
import io
import json
import os

from vt import env
env.load_repo()
from vt.rec import CaseTimeout, cpu_guard, exc_site, short_tb, tuplify, jsonable
from vt.mon.hooks import BudgetExceeded

CPU_LIMIT = float(os.environ.get('VT_CPU_LIMIT', '30'))


class Outcome(object):
    __slots__ = ('kind', 'value', 'exc')

    def __init__(self, kind, value=None, exc=None):
        self.kind = kind          # 'ok' | 'exc' | 'timeout' | 'budget'
        self.value = value
        self.exc = exc

    @property
    def ok(self):
        return self.kind == 'ok'


def call(fn, *args, **kwargs):
    """run a library function under the CPU watchdog"""
    cpu = kwargs.pop('_cpu', CPU_LIMIT)
    try:
        with cpu_guard(cpu):
            return Outcome('ok', fn(*args, **kwargs))
    except CaseTimeout:
        return Outcome('timeout')
    except BudgetExceeded as e:
        return Outcome('budget', exc=e)
    except RecursionError as e:
        return Outcome('exc', exc=e)
    except Exception as e:
        return Outcome('exc', exc=e)


def exc_key(o, fn_name):
    e = o.exc
    return 'exception:%s@%s' % (type(e).__name__, exc_site(e) if exc_site(e) != '?' else fn_name)


def report_failure(rec, o, fn_name, what_prefix='', **details):
    """record a non-answer (exception / no answer within the CPU budget) as a refuting
    observation: no answer is not the right answer"""
    if o.kind == 'exc':
        rec.violation(exc_key(o, fn_name), '%s%s raised %s: %s' % (what_prefix, fn_name, type(o.exc).__name__, str(o.exc)[:200]),
                      traceback=short_tb(o.exc), **details)
    elif o.kind == 'timeout':
        rec.violation('no_answer:cpu_budget@%s' % fn_name, '%s%s gave no answer within %.0f s of CPU time (normal cases take milliseconds)' % (what_prefix, fn_name, CPU_LIMIT), **details)
    elif o.kind == 'budget':
        rec.violation('no_answer:step_budget@%s' % fn_name, '%s%s exceeded its logical step budget: %s' % (what_prefix, fn_name, o.exc), **details)


def replay_case():
    p = os.environ.get('VT_REPLAY_CASE')
    if not p:
        return None
    with open(p) as f:
        w = json.load(f)
    return tuplify(w.get('case'))


@contextlib.contextmanager
def captured():
    buf = io.StringIO()
    with contextlib.redirect_stdout(buf):
        yield buf


def verdict_of(text):
    """checker verdict from captured stdout: OK iff some line equals 'OK'"""
    lines = [l.strip() for l in text.split('\n')]
    return 'OK' in lines


def words_upto(Sigma, n):
    import itertools
    for k in range(n + 1):
        for t in itertools.product(sorted(Sigma), repeat=k):
            yield ''.join(t)


def selfcheck(rec, ok, what=None):
    if ok:
        rec.counters['oracle_selfcheck_ok'] += 1
    else:
        rec.counters['oracle_selfcheck_fail'] += 1
        if what is not None:
            rec.extra.setdefault('oracle_selfcheck_failures', [])
            if len(rec.extra['oracle_selfcheck_failures']) < 5:
                rec.extra['oracle_selfcheck_failures'].append(jsonable(what))


def shard_slice(it, rec):
    """this shard's share of an enumerated space"""
    for i, x in enumerate(it):
        if i % rec.nshards == rec.shard:
            yield x


def with_scramble(case):
    """half of all cases are built with a pseudo-random insertion order of states / symbols / transitions
    (deterministic function of the case, so replays rebuild the same object)"""
    if 'scr' not in case:
        from vt.rec import h64
        h = int(h64(jsonable(case)), 16)
        case['scr'] = (h >> 8) % 100000 if h % 2 == 0 else None
    return case


# ------------------------------------------------------------------ the repository's own tests as one more workload
class _RepoTestPlugin(object):
    """pytest plugin: names the running test as the recorder's current case and seeds `random` per test
    (the tests draw unseeded random automata; a deterministic seed makes a witness replayable)"""

    def __init__(self, rec, seed, fixed_seed=None):
        self.rec = rec
        self.seed = seed
        self.fixed_seed = fixed_seed
        self.outcomes = {}

    def pytest_runtest_setup(self, item):
        import random
        from vt.rec import h64
        s = int(h64([self.seed, item.nodeid]), 16) % (2 ** 31) if self.fixed_seed is None else self.fixed_seed
        random.seed(s)
        self.rec.case = {'cls': 'repo_test', 'nodeid': item.nodeid, 'random_seed': s}

    def pytest_runtest_logreport(self, report):
        if report.when == 'call' or (report.when == 'setup' and report.outcome != 'passed'):
            self.outcomes[report.nodeid] = report.outcome


def run_repo_tests(rec, seed=0, nodeid=None, cpu=900, fixed_seed=None):
    """runs the repository's own test suite IN THIS INTERPRETER, i.e. with the contracts of the calling driver attached:
    every library call the tests make goes through the same monitors as the generated workload. A failing TEST is not a
    verdict of ours (counted only); what counts is what the monitors observe."""
    import pytest
    tests = os.path.join(env.REPO, 'tests')
    if not os.path.isdir(tests):
        rec.counters['repo_tests_missing'] += 1
        return
    plug = _RepoTestPlugin(rec, seed, fixed_seed)
    args = ['-q', '-p', 'no:cacheprovider', '--no-header', '-W', 'ignore', '--rootdir', env.REPO]
    args.append(nodeid if nodeid else tests)
    before = rec.evaluations
    cwd = os.getcwd()
    try:
        os.chdir(env.REPO)
        with captured():
            with cpu_guard(cpu):
                pytest.main(args, plugins=[plug])
    except CaseTimeout:
        rec.inconc('the repository tests under the monitors did not finish within %d s of CPU time' % cpu)
    except BudgetExceeded:
        rec.counters['repo_tests_budget_exceeded'] += 1
    finally:
        os.chdir(cwd)
    for k, v in plug.outcomes.items():
        rec.counters['repo_test_' + v] += 1
    rec.counters['repo_tests_monitor_evaluations'] += rec.evaluations - before
    rec.classes['repo_test'] += len(plug.outcomes)


# ------------------------------------------------------------------ in-place changes of library objects (requery workloads)
def mutate_in_place(X, seed):
    """changes the OBSERVABLE content of a library object in place (deterministically from `seed`) and keeps it valid:
    DFA: toggles one accepting state, retargets one transition; NFA / PDA: toggles one accepting state, adds one move;
    TM: retargets one transition to a halting state; CFG: drops one rule / moves the start variable.
    Returns True if something was changed. Monitors that judge a call against the CURRENT content of its argument then
    expose anything the library remembered about the object from earlier calls."""
    import random
    r = random.Random('mutate/%s' % (seed,))
    name = type(X).__name__
    if name in ('DFA', 'NFA', 'PDA') and r.random() < 0.5 and retarget_in_place(X, seed):
        return True                    # half of the time: a change that keeps every size (see retarget_in_place)
    try:
        if name == 'DFA':
            Q = sorted(X.Q)
            X.F ^= {r.choice(Q)}
            keys = sorted(X.delta)
            if keys:
                X.delta[r.choice(keys)] = r.choice(Q)
        elif name == 'NFA':
            Q = sorted(X.Q)
            X.F ^= {r.choice(Q)}
            if X.Sigma:
                key = (r.choice(Q), r.choice(sorted(X.Sigma) + [X.epsilon]))
                X.delta[key] = set(X.delta.get(key, set())) | {r.choice(Q)} if r.random() < 0.5 else X.delta.get(key, set())
                X.delta[key].add(r.choice(Q))
        elif name == 'PDA':
            Q = sorted(X.Q)
            X.F ^= {r.choice(Q)}
            if X.Sigma:
                key = (r.choice(Q), r.choice(sorted(X.Sigma)), X.epsilon)
                if key not in X.delta:
                    X.delta[key] = set()
                X.delta[key].add((r.choice(Q), X.epsilon))
        elif name == 'TM':
            keys = sorted(X.delta)
            if not keys:
                return False
            k = r.choice(keys)
            (q, b, d) = X.delta[k]
            X.delta[k] = (r.choice([X.q_accept, X.q_reject]), b, d)
        elif name == 'CFG':
            if len(X.R) >= 2:
                X.R.pop(r.randrange(len(X.R)))
            others = sorted(v for v in X.V if v != X.S)
            if others and r.random() < 0.5:
                X.S = others[0]
        else:
            return False
    except Exception:
        return False
    return True


def retarget_in_place(X, seed):
    """changes the content of a DFA / NFA / PDA in place WITHOUT changing any size (number of states, of delta keys, of targets):
    one target of one transition is replaced by another state.  A memo validated by sizes, lengths or ids cannot notice it.
    Returns True if the content changed."""
    import random
    r = random.Random('retarget/%s' % (seed,))
    name = type(X).__name__
    Q = sorted(X.Q)
    try:
        if name == 'DFA':
            keys = sorted(X.delta)
            r.shuffle(keys)
            for k in keys:
                others = [q for q in Q if q != X.delta[k]]
                if others:
                    X.delta[k] = r.choice(others)
                    return True
        elif name == 'NFA':
            keys = sorted(k for k in X.delta if X.delta[k])
            r.shuffle(keys)
            for k in keys:
                cur = sorted(X.delta[k])
                others = [q for q in Q if q not in X.delta[k]]
                if others:
                    X.delta[k].discard(r.choice(cur))
                    X.delta[k].add(r.choice(others))
                    return True
        elif name == 'PDA':
            keys = sorted(k for k in X.delta if X.delta[k])
            r.shuffle(keys)
            for k in keys:
                cur = sorted(X.delta[k])
                (q, v) = r.choice(cur)
                others = [(q2, v) for q2 in Q if (q2, v) not in X.delta[k]]
                if others:
                    X.delta[k].discard((q, v))
                    X.delta[k].add(r.choice(others))
                    return True
    except Exception:
        return False
    return False
