"""C16 - printing an object and parsing the text returns the same object."""
from vt.props import common
from vt.props.common import call, report_failure, selfcheck
from vt import adapt
from vt.ref import fa, rx, cf, pd, tmr
from vt.gen import txg, rxg, cfgg, fag

PROP = 'C16'
TITLE = 'print then parse is the identity'
SHARDS = {'quick': 8, 'thorough': 32}
TIMEOUT = {'quick': 420, 'thorough': 3000}
REQUIRED = ['dfa_roundtrip', 'nfa_roundtrip', 'pda_roundtrip', 'tm_roundtrip', 'regexp_roundtrip', 'regexp_simple_roundtrip', 'cfg_simple_roundtrip']
EXHAUSTIVE_NOTE = 'all regexp trees with <=6 nodes over {0,1,a,b} through all three printers; automata and grammars are sampled'
RULE = ('cases are objects inside the domain of the text formats: random DFA/NFA/PDA/TM (\\w+ state names that are not keywords, single-character symbols, stack/tape symbols from '
        'the documented punctuation set, printable epsilon/blank; incl. empty accepting set, empty alphabets, states without transitions, several labels per edge), all regexp trees '
        '<=6 nodes + random deep ones through str / print_regexp / print_regexp_simple, random simple-format grammars whose variables all have rules. The re-parsed object is compared '
        'field by field in canonical form. distinct = the object; non-trivial = it has at least two transitions (automata) / an operator (regexp) / two rules (grammar)')
ASSUMPTIONS = [
    'objects are built directly through the class constructors, printed by the library printer and read back by the library parser',
    'equality is on observable content (sets and maps compared as sets), not on container types',
]


def cmp_fields(rec, key, what, exp, got, text, names):
    for i, nm in enumerate(names):
        if exp[i] != got[i]:
            rec.violation('%s:%s_differs' % (key, nm), '%s: %s of the re-parsed object differs' % (what, nm), expected=exp[i], observed=got[i], text=text)
            return False
    return True


def check_case(rec, case):
    import gambatools.dfa_algorithms as da
    import gambatools.nfa_algorithms as na
    import gambatools.pda_algorithms as pa
    import gambatools.tm_algorithms as ta
    import gambatools.cfg_algorithms as ca
    import gambatools.regexp as gr
    from gambatools.regexp_parser import parse_regexp
    from gambatools.regexp_simple_parser import parse_simple_regexp
    kind = case['kind']
    R = case['ref']
    if kind == 'dfa':
        rec.note_case(case, case['cls'], len(R[2]) >= 2)
        D = adapt.build_dfa(R)
        o = call(da.print_dfa, D)
        rec.ev('dfa_roundtrip')
        if not o.ok:
            return report_failure(rec, o, 'print_dfa')
        text = o.value
        o = call(da.parse_dfa, text)
        if not o.ok:
            return report_failure(rec, o, 'parse_dfa', what_prefix='re-parsing printed DFA: ', text=text)
        cmp_fields(rec, 'dfa_roundtrip', 'DFA', R, adapt.dfa_ref(o.value), text, ['states', 'input_symbols', 'transitions', 'initial_state', 'final_states'])
    elif kind == 'nfa':
        rec.note_case(case, case['cls'], len(R[2]) >= 2)
        N = adapt.build_nfa(R, case['eps'], case.get('container', 'defaultdict_set'))
        o = call(na.print_nfa, N)
        rec.ev('nfa_roundtrip')
        if not o.ok:
            return report_failure(rec, o, 'print_nfa')
        text = o.value
        o = call(na.parse_nfa, text)
        if not o.ok:
            return report_failure(rec, o, 'parse_nfa', what_prefix='re-parsing printed NFA: ', text=text)
        if cmp_fields(rec, 'nfa_roundtrip', 'NFA', R, adapt.nfa_ref(o.value), text, ['states', 'input_symbols', 'transitions', 'initial_state', 'final_states']):
            if o.value.epsilon != case['eps']:
                rec.violation('nfa_roundtrip:epsilon_differs', 'NFA: the epsilon symbol of the re-parsed object differs', expected=case['eps'], observed=o.value.epsilon, text=text)
    elif kind == 'pda':
        rec.note_case(case, case['cls'], len(R[3]) >= 2)
        P = adapt.build_pda(R, case['eps'])
        o = call(pa.print_pda, P)
        rec.ev('pda_roundtrip')
        if not o.ok:
            return report_failure(rec, o, 'print_pda')
        text = o.value
        o = call(pa.parse_pda, text)
        if not o.ok:
            return report_failure(rec, o, 'parse_pda', what_prefix='re-parsing printed PDA: ', text=text)
        if cmp_fields(rec, 'pda_roundtrip', 'PDA', R, adapt.pda_ref(o.value), text, ['states', 'input_symbols', 'stack_symbols', 'transitions', 'initial_state', 'final_states']):
            if o.value.epsilon != case['eps']:
                rec.violation('pda_roundtrip:epsilon_differs', 'PDA: the epsilon symbol of the re-parsed object differs', expected=case['eps'], observed=o.value.epsilon, text=text)
    elif kind == 'tm':
        rec.note_case(case, case['cls'], len(R[3]) >= 2)
        T = adapt.build_tm(R)
        o = call(ta.print_tm, T)
        rec.ev('tm_roundtrip')
        if not o.ok:
            return report_failure(rec, o, 'print_tm')
        text = o.value
        o = call(ta.parse_tm, text)
        if not o.ok:
            return report_failure(rec, o, 'parse_tm', what_prefix='re-parsing printed TM: ', text=text)
        cmp_fields(rec, 'tm_roundtrip', 'TM', R, adapt.tm_ref(o.value), text, ['states', 'input_symbols', 'tape_symbols', 'transitions', 'initial_state', 'accept_state', 'reject_state', 'blank'])
    elif kind == 'rx':
        rec.note_case(case, case['cls'], R[0] in '*+.')
        r = adapt.build_rx(R)
        for (label, printer, parser, ev) in (('str', str, parse_regexp, 'regexp_roundtrip'), ('print_regexp', gr.print_regexp, parse_regexp, 'regexp_roundtrip'),
                                            ('print_regexp_simple', gr.print_regexp_simple, parse_simple_regexp, 'regexp_simple_roundtrip')):
            o = call(printer, r)
            rec.ev(ev)
            if not o.ok:
                report_failure(rec, o, label)
                continue
            text = o.value
            with common.captured() as buf:
                o = call(parser, text)
            if not o.ok:
                report_failure(rec, o, parser.__name__, what_prefix='re-parsing %s output: ' % label, text=text)
                continue
            try:
                t2 = adapt.rx_ref(o.value)
            except Exception as e:
                rec.violation('regexp_roundtrip:%s:not_a_regexp' % label, 're-parsing the text of %s did not give a regexp' % label, text=text, observed=repr(o.value))
                continue
            w = rx.distinguish(R, t2)
            if w is not None:
                rec.violation('regexp_roundtrip:%s:language_differs' % label, 're-parsing the text of %s gives an expression with a different language' % label, text=text, word=w, reparsed=rx.show(t2))
                continue
            o2 = call(printer, o.value)
            if o2.ok and o2.value != text:
                rec.violation('regexp_roundtrip:%s:print_differs' % label, 're-parsing the text of %s gives an expression that prints differently' % label, text=text, reprinted=o2.value)
    elif kind == 'cfg':
        rec.note_case(case, case['cls'], len(R[2]) >= 2)
        G = adapt.build_cfg(R, case.get('eps', 'ε'))
        o = call(ca.cfg_print_simple, G)
        rec.ev('cfg_simple_roundtrip')
        if not o.ok:
            return report_failure(rec, o, 'cfg_print_simple', grammar=cf.show(R))
        text = o.value
        o = call(ca.parse_simple_cfg, text)
        if not o.ok:
            return report_failure(rec, o, 'parse_simple_cfg', what_prefix='re-parsing printed grammar: ', text=text)
        R2 = adapt.cfg_ref(o.value)
        exp = (R[0], R[1], tuple(sorted(set(R[2]))), R[3])
        got = (R2[0], R2[1], tuple(sorted(set(R2[2]))), R2[3])
        if cmp_fields(rec, 'cfg_simple_roundtrip', 'grammar', exp, got, text, ['variables', 'terminals', 'rules', 'start_variable']):
            oe = call(lambda: o.value == G and G == o.value)
            if oe.ok and not oe.value:
                rec.violation('cfg_simple_roundtrip:not_equal', 'the re-parsed grammar does not compare equal (==) to the original', text=text)


def simple_grammar(rng):
    """simple format: single upper-case variables, single lower-case terminals, every variable has a rule,
    V = set of left-hand sides, Sigma = terminals used, start = variable of the first rule"""
    nv = rng.randint(1, 6)
    vs = rng.sample('ABCDEFGHIJKLMNOPQRSTUVWXYZ', nv)
    ts = rng.sample('abcdefgh', rng.randint(1, 3))
    R = []
    for A in vs:
        for _ in range(rng.randint(1, 3)):
            L = rng.choice([0, 1, 1, 2, 2, 3, 4])
            rhs = tuple(('V', rng.choice(vs)) if rng.random() < 0.45 else ('T', rng.choice(ts)) for _ in range(L))
            if (A, rhs) not in R:
                R.append((A, rhs))
    if rng.random() < 0.5:
        # interleave rules of different variables (printing groups them by first appearance)
        rng.shuffle(R)
    used = sorted({x for (_, r) in R for (k, x) in r if k == 'T'})
    return cf.make(vs, used, R, R[0][0])


def gen_cases(rec, rng, tier):
    thorough = tier == 'thorough'
    for t in common.shard_slice(rxg.enum_trees(6), rec):
        yield {'kind': 'rx', 'cls': 'enum_tree', 'ref': t}
    for _ in range(2000 if thorough else 150):
        yield {'kind': 'dfa', 'cls': 'random_dfa', 'ref': txg.dfa(rng)}
        R, eps = txg.nfa(rng)
        yield {'kind': 'nfa', 'cls': 'random_nfa', 'ref': R, 'eps': eps, 'container': rng.choice(adapt.NFA_KINDS)}
        RP, eps = txg.pda(rng)
        yield {'kind': 'pda', 'cls': 'random_pda', 'ref': RP, 'eps': eps}
        yield {'kind': 'tm', 'cls': 'random_tm', 'ref': txg.tm(rng)}
        RGs = simple_grammar(rng)
        yield {'kind': 'cfg', 'cls': 'random_simple_grammar', 'ref': RGs, 'eps': rng.choice(['ε', '_'])}
        # a grammar object whose own epsilon symbol is a declared letter / digit (as parsed from a text with "epsilon = z")
        free = [c for c in 'ezx0' if c not in RGs[1]]
        if free:
            yield {'kind': 'cfg', 'cls': 'simple_grammar_with_declared_epsilon', 'ref': RGs, 'eps': rng.choice(free)}
        t = rxg.random_tree(rng, rng.randint(2, 9), 'abc', bias=rng.choice([None, 'star', 'unit']))
        if rx.size_iter(t) <= 80:
            yield {'kind': 'rx', 'cls': 'random_tree', 'ref': t}
    # many labels on one edge, alphabets of 9..33 symbols (printers that wrap or group labels, parsers that split them)
    for _ in range(60 if thorough else 8):
        yield {'kind': 'dfa', 'cls': 'many_labels_on_one_edge', 'ref': txg.dfa_wide(rng)}
        R, eps = txg.nfa_wide(rng)
        yield {'kind': 'nfa', 'cls': 'many_labels_on_one_edge', 'ref': R, 'eps': eps, 'container': rng.choice(adapt.NFA_KINDS)}
        RP, eps = txg.pda_wide(rng)
        yield {'kind': 'pda', 'cls': 'many_labels_on_one_edge', 'ref': RP, 'eps': eps}
        yield {'kind': 'tm', 'cls': 'many_labels_on_one_edge', 'ref': txg.tm_wide(rng)}
    # names that differ only in leading zeros, prefixes of each other, digits only
    for pool in (['0', '00', '1', '01', '001'], ['q1', 'q01', 'q001', 'q10', 'q010'], ['a', 'A', 'aa', 'aA', 'Aa']):
        for _ in range(3):
            n = rng.randint(2, 5)
            nm = rng.sample(pool, n)
            yield {'kind': 'dfa', 'cls': 'similar_names', 'ref': fag.random_dfa(rng, n, 2, names=nm)}
            yield {'kind': 'nfa', 'cls': 'similar_names', 'ref': fag.random_nfa(rng, n, 2, eps_density=0.4, density=0.5, names=nm), 'eps': 'ε'}
            RP0, eps0 = txg.pda(rng)
            if len(RP0[0]) <= n:
                from vt.gen import pdag as _pg
                yield {'kind': 'pda', 'cls': 'similar_names', 'ref': _pg.rename(RP0, dict(zip(RP0[0], nm))), 'eps': eps0}
    # LARGE automata: declaration lines (states / final / input_symbols) of several hundred characters (round 14, C16_l: printers that
    # wrap long lines and a parser that accepts continuation lines only after transition lines)
    import string
    for n in (35, 60, 90):
        yield {'kind': 'dfa', 'cls': 'large_automaton_long_declaration_lines', 'ref': fag.random_dfa(rng, n, 2, p_final=0.9)}
        yield {'kind': 'nfa', 'cls': 'large_automaton_long_declaration_lines', 'ref': fag.random_nfa(rng, n, 2, eps_density=0.3, density=0.4), 'eps': rng.choice(['_', 'ε'])}
    wide = string.ascii_letters + string.digits
    Tw = [(q, a, rng.choice(['q0', 'q1'])) for q in ('q0', 'q1') for a in wide]
    yield {'kind': 'dfa', 'cls': 'alphabet_of_62_symbols', 'ref': fa.make(['q0', 'q1'], wide, Tw, 'q0', ['q1'])}
    for (cls, R) in fag.hostile_dfas(rng):
        yield {'kind': 'dfa', 'cls': 'dfa_' + cls, 'ref': R}
    for (cls, R) in fag.hostile_nfas(rng):
        yield {'kind': 'nfa', 'cls': 'nfa_' + cls, 'ref': R, 'eps': rng.choice(['_', 'ε'])}
    from vt.gen import pdag
    for (cls, RP) in pdag.hostile_pdas():
        if '∅' not in RP[2] and '?' not in RP[2]:
            yield {'kind': 'pda', 'cls': 'pda_' + cls, 'ref': RP, 'eps': 'ε'}


def run(rec, rng, tier):
    rc = common.replay_case()
    if rc is not None:
        check_case(rec, rc)
        return
    for case in gen_cases(rec, rng, tier):
        check_case(rec, case)
