#!/venv/bin/python
"""Entry point:  vcheck.py --property Cnn --tier quick|thorough [--seed N] [--replay FILE]

exit 0  property held on everything the monitors observed
exit 1  a monitor recorded a refuting observation (line: VIOLATION property=<id> replay=<path>)
exit 2  inconclusive (deciding monitor not reached, shard crashed / timed out, oracle self-check failed)
"""
import argparse
import json
import os
import sys

HERE = os.path.dirname(os.path.abspath(__file__))
if HERE not in sys.path:
    sys.path.insert(0, HERE)


def main():
    ap = argparse.ArgumentParser()
    ap.add_argument('--property', required=False)
    ap.add_argument('--tier', default=os.environ.get('VERIF_TIER', 'quick'), choices=['quick', 'thorough'])
    ap.add_argument('--seed', type=int, default=int(os.environ.get('VERIF_SEED', '0') or 0))
    ap.add_argument('--replay')
    ap.add_argument('--child', action='store_true')
    ap.add_argument('--shard', type=int, default=0)
    ap.add_argument('--nshards', type=int, default=1)
    ap.add_argument('--out')
    ap.add_argument('--replay-case')
    a = ap.parse_args()
    from vt import env
    if a.child:
        env.setup_paths()
        from vt import runner
        if a.replay_case:
            os.environ['VT_REPLAY_CASE'] = a.replay_case
        return runner.run_shard_inproc(a.property, a.tier, a.seed, a.shard, a.nshards, a.out)
    from vt import runner
    prop = a.property
    if a.replay and not prop:
        with open(a.replay) as f:
            prop = json.load(f)['property']
    return runner.run_property(prop, a.tier, a.seed, replay=a.replay)


if __name__ == '__main__':
    sys.exit(main())
