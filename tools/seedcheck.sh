#!/bin/bash
# seedcheck.sh <worktree-with-change> [tier] [props...]  : tests pass? demo fails? which quick checks fire?
# The checks are pointed at the scratch tree with VERIF_REPO; evidence/replays go to a scratch dir.
wt=$1; tier=${2:-quick}; shift 2
props=${@:-C01 C02 C03 C04 C05 C06 C07 C08 C09 C10 C11 C12 C13 C14 C15 C16 C17 C18 C19 C20}
cd "$(dirname "$0")/.."
echo "== tests with the change"; (cd $wt && PYTHONPATH=$wt/src /venv/bin/python -m pytest -q -p no:cacheprovider 2>&1 | tail -1)
if [ -f $wt/_seed/demo.py ]; then
  echo "== demo with the change (expect non-zero)"; PYTHONPATH=$wt/src timeout 300 /venv/bin/python $wt/_seed/demo.py > /tmp/seed_demo_out.txt 2>&1; echo "exit=$?"; tail -3 /tmp/seed_demo_out.txt
  echo "== demo on /repo (expect 0)"; PYTHONPATH=/repo/src timeout 300 /venv/bin/python $wt/_seed/demo.py > /tmp/seed_demo_out0.txt 2>&1; echo "exit=$?"; tail -2 /tmp/seed_demo_out0.txt
fi
scr=$(mktemp -d /tmp/seedrun_XXXX)
for p in $props; do
  out=$(VERIF_REPO=$wt VT_EVIDENCE_DIR=$scr/ev VT_REPLAY_DIR=$scr/rp /venv/bin/python vcheck.py --property $p --tier $tier 2>&1); e=$?
  if [ $e -ne 0 ]; then echo "[$p exit $e]"; echo "$out" | grep -E "VIOLATION|key=|INCONCLUSIVE" | head -6; fi
done
echo "== done ($scr)"; rm -rf $scr
