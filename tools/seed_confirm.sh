#!/bin/bash
# seed_confirm.sh <seed-dir> <tier> <props...> : applies seeded/<id>/patch.diff to /repo, runs the checks, reverts.
sd=$(realpath $1); tier=$2; shift 2
cd "$(dirname "$0")/.."
if [ -n "$(git -C /repo status --porcelain)" ]; then echo "/repo not clean"; exit 3; fi
trap 'git -C /repo reset -q --hard HEAD ; git -C /repo clean -fdq -- src notebooks' EXIT
git -C /repo apply $sd/patch.diff 2>/dev/null || git -C /repo apply --3way $sd/patch.diff 2>/dev/null || { echo "patch does not apply"; exit 3; }
t=$(cd /repo && /venv/bin/python -m pytest -q -p no:cacheprovider 2>&1 | tail -1)
REPO_ROOT=/repo PYTHONPATH=/repo/src timeout 300 /venv/bin/python $sd/demo.py > /dev/null 2>&1; d=$?
scr=$(mktemp -d /tmp/seedconf_XXXX)
res=""
for p in "$@"; do
  out=$(VT_EVIDENCE_DIR=$scr/ev VT_REPLAY_DIR=$scr/rp /venv/bin/python vcheck.py --property $p --tier $tier 2>&1); e=$?
  keys=$(echo "$out" | grep "key=" | sed 's/ *what=.*//; s/ *key=//' | tr '\n' ' ')
  res="$res $p:exit$e[$keys]"
done
rm -rf $scr
echo "$(basename $sd) tests='$t' demo_exit=$d $res"
