#!/usr/bin/env python3
"""record_detection.py <ingest-log-dir> <id>...: for seeds confirmed in a scratch worktree (tools/ingest_r13.sh: tests with the change, demo with and
without it) runs tools/regress_one.sh (patch applied in a fresh scratch worktree of /repo, quick check of the property pointed at it with VERIF_REPO)
and stores the outcome in seeded/<id>/meta.json."""
import json, os, re, subprocess, sys
root = os.path.dirname(os.path.dirname(os.path.abspath(__file__)))
logdir = sys.argv[1]
for id_ in sys.argv[2:]:
    p = id_[:3]
    mp = os.path.join(root, 'seeded', id_, 'meta.json')
    meta = json.load(open(mp))
    log = open(os.path.join(logdir, 'ing_%s.log' % p)).read()
    tests = re.search(r'== tests with the change\n(.*)', log).group(1).strip()
    ex = re.findall(r'^exit=(\d+)', log, flags=re.M)
    out = subprocess.run([os.path.join(root, 'tools', 'regress_one.sh'), id_], capture_output=True, text=True).stdout.strip().split('\n')[-1]
    m = re.match(r'(\S+) exit=(\d+) ?(.*)', out)
    meta['confirmed'] = {'existing_tests_with_change': tests, 'demo_exit_with_change': int(ex[0]), 'demo_exit_on_unchanged_repo': int(ex[1]),
                         'how': 'tools/ingest_r13.sh in the agent\'s scratch worktree (pytest, demo.py with the change, demo.py against /repo), then tools/regress_one.sh: '
                                'patch.diff applied in a fresh scratch worktree of /repo, vcheck.py --property %s --tier quick with VERIF_REPO pointing at it' % p}
    meta['detected_by'] = {'check': p, 'tier': 'quick', 'exit': int(m.group(2)), 'violation_keys': m.group(3).split()}
    json.dump(meta, open(mp, 'w'), indent=1, ensure_ascii=False)
    print(out[:200], flush=True)
