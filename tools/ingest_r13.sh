#!/bin/bash
# ingest_r13.sh <Cnn> <new-id> [round-dir] : takes the uncommitted change + _seed/ of the scratch worktree /tmp/r13/<Cnn>, stores it as seeded/<new-id>/
# (patch.diff, demo.py, notes.md, stub meta.json) and runs the first-attempt detection (quick check of the property against the worktree).
p=$1; id=$2; wt=${3:-/tmp/r13}/$p
cd "$(dirname "$0")/.."
mkdir -p seeded/$id
git -C $wt diff -- src > seeded/$id/patch.diff
cp $wt/_seed/demo.py seeded/$id/demo.py; cp $wt/_seed/notes.md seeded/$id/notes.md 2>/dev/null
[ -s seeded/$id/patch.diff ] || { echo "$id EMPTY PATCH"; exit 1; }
tools/seedcheck.sh $wt quick $p 2>&1
