#!/bin/bash
# all 20 quick checks against every refactoring worktree; expected: no non-zero exit
cd /verif
for d in /tmp/wtk_C*_R; do
  id=$(basename $d | sed 's/wtk_//')
  if [ ! -f $d/_seed/patch.diff ]; then echo "## $id (no patch yet)"; continue; fi
  echo "## $id files: $(git -C $d diff --stat -- src notebooks | tail -1)"
  t=$(cd $d && PYTHONPATH=$d/src /venv/bin/python -m pytest -q -p no:cacheprovider 2>&1 | tail -1); echo "   tests: $t"
  scr=$(mktemp -d /tmp/refrun_XXXX)
  for p in C01 C02 C03 C04 C05 C06 C07 C08 C09 C10 C11 C12 C13 C14 C15 C16 C17 C18 C19 C20; do
    out=$(VERIF_REPO=$d VT_EVIDENCE_DIR=$scr/ev VT_REPLAY_DIR=/tmp/r11/replays/$id /venv/bin/python vcheck.py --property $p --tier quick 2>&1); e=$?
    if [ $e -ne 0 ]; then echo "   [$p exit $e]"; echo "$out" | grep -E "key=|INCONCLUSIVE" | head -5 | cut -c1-260; fi
  done
  rm -rf $scr
  echo "   done $id"
done
echo ALLDONE
