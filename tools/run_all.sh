#!/bin/bash
# run_all.sh <tier> [seed]  - runs every registered check, prints one line per check
tier=${1:-quick}; seed=${2:-0}
cd "$(dirname "$0")/.."
rc=0
for p in C01 C02 C03 C04 C05 C06 C07 C08 C09 C10 C11 C12 C13 C14 C15 C16 C17 C18 C19 C20; do
  out=$(VERIF_SEED=$seed /venv/bin/python vcheck.py --property $p --tier $tier 2>&1); e=$?
  echo "$out" | head -4 | sed "s/^/[exit $e] /"
  [ $e -ne 0 ] && rc=1
done
exit $rc
