#!/usr/bin/env python3
"""confirm_round.py [ids...]: for every seeded/<id> without a 'confirmed' entry (or the ids given): demo on the unchanged
/repo, then tools/seed_confirm.sh (apply to /repo, pytest, demo, quick check of its property, revert); results go into meta.json.
Never run while another job uses /repo."""
import json, os, re, subprocess, sys
root = os.path.dirname(os.path.dirname(os.path.abspath(__file__)))
ids = sys.argv[1:] or sorted(os.listdir(os.path.join(root, 'seeded')))
for id_ in ids:
    d = os.path.join(root, 'seeded', id_)
    mp = os.path.join(d, 'meta.json')
    meta = json.load(open(mp))
    if 'confirmed' in meta and not sys.argv[1:]:
        continue
    prop = meta['property']
    env = dict(os.environ, PYTHONPATH='/repo/src', REPO_ROOT='/repo')
    base = subprocess.run(['/venv/bin/python', os.path.join(d, 'demo.py')], env=env, capture_output=True, text=True, timeout=600).returncode
    out = subprocess.run([os.path.join(root, 'tools', 'seed_confirm.sh'), d, 'quick', prop], capture_output=True, text=True).stdout.strip().split('\n')[-1]
    m = re.match(r"(\S+) tests='(.*?)' demo_exit=(\d+)\s+(\w+):exit(\d+)\[(.*)\]", out)
    if not m:
        print(id_, 'UNPARSED', out)
        continue
    meta['confirmed'] = {'existing_tests_with_change': m.group(2), 'demo_exit_with_change': int(m.group(3)), 'demo_exit_on_unchanged_repo': base,
                         'how': 'tools/seed_confirm.sh: git -C /repo apply patch.diff; pytest; demo.py; vcheck.py --property %s --tier quick; git -C /repo checkout -- .' % prop}
    meta['detected_by'] = {'check': m.group(4), 'tier': 'quick', 'exit': int(m.group(5)), 'violation_keys': m.group(6).split()}
    json.dump(meta, open(mp, 'w'), indent=1, ensure_ascii=False)
    print(id_, 'base_demo=%d' % base, out[:230], flush=True)
    assert subprocess.run(['git', '-C', '/repo', 'status', '--porcelain'], capture_output=True, text=True).stdout.strip() == '', 'repo dirty'
