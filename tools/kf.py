#!/usr/bin/env python3
"""kf.py <property> <key> <status> <commit|-> <what...>   append/replace an entry of known_findings.json"""
import json, sys, os
p = os.path.join(os.path.dirname(os.path.dirname(os.path.abspath(__file__))), 'known_findings.json')
k = json.load(open(p))
prop, key, status, commit = sys.argv[1:5]
what = ' '.join(sys.argv[5:])
if status == 'fixed':
    what = 'fixed: property=%s %s %s' % (prop, commit, what)
k['findings'] = [f for f in k['findings'] if not (f['property'] == prop and f['key'] == key)]
e = {'property': prop, 'key': key, 'status': status, 'what': what}
if commit != '-':
    e['commit'] = commit
k['findings'].append(e)
json.dump(k, open(p, 'w'), indent=1, ensure_ascii=False)
