#!/venv/bin/python
"""Regenerates MANIFEST.json from the drivers present in vt/props (kept valid at all times)."""
import json
import os
import sys

HERE = os.path.dirname(os.path.dirname(os.path.abspath(__file__)))
sys.path.insert(0, HERE)

NOTE = 'Trusted base: the reference models in vt/ref (two independent ones per formalism, cross-checked on the live workload), CPython 3.12, icontract. Only executions produced by the workload are judged.'


def main():
    props = [json.loads(l) for l in open(os.path.join(HERE, 'properties.jsonl'))]
    checks = []
    na = []
    for p in props:
        pid = p['id']
        if os.path.exists(os.path.join(HERE, 'vt', 'props', pid.lower() + '.py')):
            meta = json.load(open(os.path.join(HERE, 'vt', 'props', 'meta.json'))).get(pid, {})
            import importlib
            mod = importlib.import_module('vt.props.' + pid.lower())
            meta.setdefault('level', 'Exploration by runtime monitoring of the real functions (%s). Workload and oracle: %s Held = held on every monitored execution, not proved for all inputs.' % (mod.TITLE, mod.RULE))
            meta.setdefault('design_ref', '2/' + pid)
            meta.setdefault('note', NOTE + ' Assumptions: ' + '; '.join(mod.ASSUMPTIONS))
            checks.append({
                'property_id': pid,
                'quick_cmd': '/venv/bin/python vcheck.py --property %s --tier quick' % pid,
                'thorough_cmd': '/venv/bin/python vcheck.py --property %s --tier thorough' % pid,
                'evidence_file': 'evidence/%s.json' % pid,
                'replay_cmd_template': '/venv/bin/python vcheck.py --replay {path}',
                'engine': 'vt',
                'level_claimed': {'category': 'exploration', 'text': meta.get('level', ''), 'design_ref': meta.get('design_ref', '2')},
                'level_note': meta.get('note', NOTE),
                'technique': meta.get('technique', 'runtime monitoring: contracts and reference-model monitors on the real functions'),
            })
        else:
            na.append({'property_id': pid, 'reason': 'check not built yet (in progress); the property is addressed by the runtime-monitoring design in DESIGN.md section 2'})
    man = {
        'version': 1,
        'setup_cmd': '/venv/bin/python -m pip install -q --no-index --find-links /opt/veriftools/wheels --target /verif/.deps icontract || true',
        'hooks': {
            'guard': 'GAMBATOOLS_VERIF',
            'enable': 'no source hooks: all instrumentation (icontract contracts, sys.monitoring LINE hooks, immutability and stdout monitors) is attached from /verif at run time to the functions imported from $VERIF_REPO/src (default /repo/src)',
            'baseline_off_cmd': 'cd /repo && /venv/bin/python -m pytest -ra -q -p no:cacheprovider --timeout=900 --continue-on-collection-errors',
            'source_commits': [],
            'add_only': True,
        },
        'engines': [{'name': 'vt', 'path': 'vcheck.py', 'serves_properties': [c['property_id'] for c in checks],
                     'kind_free_text': 'runtime monitoring harness: sharded workloads over interpreters with different PYTHONHASHSEED; contracts, reference-model monitors, sys.monitoring hooks; three-valued verdicts'}],
        'checks': checks,
        'not_applicable': na,
        'notes': 'exit 0 held / 1 violation / 2 inconclusive. Known findings: known_findings.json. See DESIGN.md.',
    }
    with open(os.path.join(HERE, 'MANIFEST.json'), 'w') as f:
        json.dump(man, f, indent=1)
    print('checks:', len(checks), 'not_applicable:', len(na))


if __name__ == '__main__':
    main()
