#!/bin/bash
# regress_one.sh <seed-id>: applies seeded/<id>/patch.diff in a scratch worktree of /repo (never in /repo itself), runs the quick check of
# the seed's property against it (VERIF_REPO), prints "<id> exit=<e> keys", removes the worktree.
id=$1
cd "$(dirname "$0")/.."
sd=$(realpath seeded/$id)
p=${id%%_*}
wt=/tmp/rg_$id
git -C /repo worktree add --detach $wt HEAD > /dev/null 2>&1 || { echo "$id WORKTREE-FAILED"; exit 0; }
(git -C $wt apply $sd/patch.diff 2>/dev/null || git -C $wt apply --3way $sd/patch.diff 2>/dev/null) || { echo "$id PATCH-DOES-NOT-APPLY"; git -C /repo worktree remove --force $wt; exit 0; }
scr=$(mktemp -d /tmp/rgrun_XXXX)
out=$(VERIF_REPO=$wt VT_EVIDENCE_DIR=$scr/ev VT_REPLAY_DIR=$scr/rp /venv/bin/python vcheck.py --property $p --tier quick 2>&1); e=$?
keys=$(echo "$out" | grep "key=" | sed 's/ *what=.*//; s/ *key=//' | head -3 | tr '\n' ' ')
echo "$id exit=$e $keys"
rm -rf $scr
git -C /repo worktree remove --force $wt > /dev/null 2>&1
