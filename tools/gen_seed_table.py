#!/usr/bin/env python3
"""gen_seed_table.py: imports the 'first attempt' column of DESIGN.md section 7 into seeded/<id>/meta.json (first_result) where missing,
then rewrites the table of section 7 from the meta files."""
import json, os, re
root = os.path.dirname(os.path.dirname(os.path.abspath(__file__)))
dp = os.path.join(root, 'DESIGN.md')
text = open(dp, encoding='utf8').read()
rows = {}
for m in re.finditer(r'^\| (C\d\d_\w) \| (.*?) \| (.*?) \| (.*?) \|$', text, flags=re.M):
    rows[m.group(1)] = m.group(4)
R4 = {'C17_d': 'missed first: no TM text whose tape_symbols declaration omits the blank it uses -> fault added',
      'C12_i': 'missed first: ill-formed CYK entries never shared their letters with an earlier well-formed entry -> malformed_entry texts added',
      'C05_c': 'missed first: no x*.y* trees with related star bodies in swapped order -> swapped star bodies family',
      'C16_d': 'missed first: state names never differed by leading zeros only (0/00, q1/q01) -> leading-zero name pools',
      'C13_g': 'missed first: NFA/PDA reference files never declared their own epsilon symbol e -> declared epsilon layouts',
      'C12_j': 'missed first: regexp answers never differed from the reference on long words only -> long_word_only answers (product with a chain)',
      'C19_e': 'missed first: operand-intact monitor only saw first-stage calls -> second-stage (pipeline) calls on the results of earlier phases',
      'C02_e': 'caught marginally (few observations) -> larger CNF grammars and bounds in C02'}
out = []
ids = sorted(i for i in os.listdir(os.path.join(root, 'seeded')) if os.path.isdir(os.path.join(root, 'seeded', i)))
rounds = {}
for id_ in ids:
    mp = os.path.join(root, 'seeded', id_, 'meta.json')
    meta = json.load(open(mp))
    if 'first_result' not in meta:
        meta['first_result'] = rows.get(id_) or R4.get(id_) or 'caught at once'
        json.dump(meta, open(mp, 'w'), indent=1, ensure_ascii=False)
    r = re.search(r'round (\d+)', meta.get('origin', ''))
    rounds[id_] = int(r.group(1)) if r else 1
    det = meta.get('detected_by', {})
    keys = det.get('violation_keys', [])
    keys = [k for k in keys if ':' in k or k.startswith('exception')][:3]
    out.append('| %s | %d | %s: %s (%s) | %s %s | %s |' % (id_, rounds[id_], meta['property'], meta['change'].replace('|', '\\|'), meta['needs_to_manifest'].replace('|', '\\|'),
               det.get('check', '?'), ', '.join('`%s`' % k for k in keys), meta['first_result']))
head = '| seed | round | property / change (what it needs to manifest) | detected by (quick tier) | first attempt |\n|---|---|---|---|---|\n'
new = head + '\n'.join(out) + '\n'
text2 = re.sub(r'\| seed \|[^\n]*\n\|---[^\n]*\n(?:\| C\d\d_\w \|[^\n]*\n)+', lambda m: new, text, count=1)
open(dp, 'w', encoding='utf8').write(text2)
miss = [i for i in ids if not json.load(open(os.path.join(root, 'seeded', i, 'meta.json')))['first_result'].startswith('caught at once')]
print(len(ids), 'seeds;', len(miss), 'not caught at once;', {r: sum(1 for i in ids if rounds[i] == r) for r in sorted(set(rounds.values()))},
      {r: sum(1 for i in miss if rounds[i] == r) for r in sorted(set(rounds.values()))})
